(** C15 -- forward-mode differentiation of a traced DAG over the reals, proved correct.

    A jet is (value, derivative).  [evalJ] runs the generic [eval_nodes] of Expr.v with the jet
    operations; [ad_sound]: if every divisor met is non-zero and every argument of sqrt / ** is
    positive at the point s0 ([side_ok]), then for every node the second component of its jet
    is the derivative at s0 (Coquelicot's [is_derive]) of the node's value as a function of the
    parameter s on which the DAG's variables depend, and the first component is the value. *)
Set Warnings "-ambiguous-paths,-notation-overridden".
From Coq Require Import ZArith QArith Qreals Reals List Bool Lia Lra.
From Coquelicot Require Import Coquelicot.
From P Require Import Expr.
Import ListNotations.
Close Scope Q_scope.
Open Scope R_scope.

Definition jet := (R * R)%type.
Definition jv (j : jet) : R := fst j.
Definition jd (j : jet) : R := snd j.
Definition jconst (c : R) : jet := (c, 0).
Definition jadd (a b : jet) : jet := (jv a + jv b, jd a + jd b).
Definition jsub (a b : jet) : jet := (jv a - jv b, jd a - jd b).
Definition jmul (a b : jet) : jet := (jv a * jv b, jd a * jv b + jv a * jd b).
Definition jdiv (a b : jet) : jet := (jv a / jv b, (jd a * jv b - jv a * jd b) / (jv b * jv b)).
Definition jneg (a : jet) : jet := (- jv a, - jd a).
Definition jsqrt (a : jet) : jet := (sqrt (jv a), jd a / (2 * sqrt (jv a))).
Definition jexp (a : jet) : jet := (exp (jv a), exp (jv a) * jd a).
Definition jpow (a : jet) (q : R) : jet := (Rpower (jv a) q, q * (Rpower (jv a) q / jv a) * jd a).

Section AD.
  Variables (varf : R -> nat -> R) (dvar : nat -> R) (coef : nat -> R) (fn : fnR) (s0 : R).
  Hypothesis Hvar : forall i, is_derive (fun s => varf s i) s0 (dvar i).

  (** the three readings of a DAG *)
  Definition evR (s : R) (env : list R) (ns : list node) : list R :=
    eval_nodes 0 (fun q _ => Q2R q) Rplus Rminus Rmult Rdiv Ropp (fun _ => sqrt)
               (fun _ x => exp x) (fun _ x q _ => Rpower x (Q2R q)) (fun _ fid out args => fn fid out args)
               (varf s) coef env ns.
  Definition jops_node := eval_node (0, 0) (fun q _ => jconst (Q2R q)) jadd jsub jmul jdiv jneg (fun _ => jsqrt)
               (fun _ => jexp) (fun _ a q _ => jpow a (Q2R q)) (fun _ _ _ _ => (0, 0))
               (fun i => (varf s0 i, dvar i)) (fun k => jconst (coef k)).
  Definition evJ (env : list jet) (ns : list node) : list jet :=
    eval_nodes (0, 0) (fun q _ => jconst (Q2R q)) jadd jsub jmul jdiv jneg (fun _ => jsqrt)
               (fun _ => jexp) (fun _ a q _ => jpow a (Q2R q)) (fun _ _ _ _ => (0, 0))
               (fun i => (varf s0 i, dvar i)) (fun k => jconst (coef k)) env ns.
  (** as functions of the parameter *)
  Definition fnode := eval_node (fun _ : R => 0) (fun q _ _ => Q2R q)
               (fun f g s => f s + g s) (fun f g s => f s - g s) (fun f g s => f s * g s) (fun f g s => f s / g s)
               (fun f s => - f s) (fun _ f s => sqrt (f s)) (fun _ f s => exp (f s)) (fun _ f q _ s => Rpower (f s) (Q2R q))
               (fun _ fid out args s => fn fid out (map (fun f => f s) args))
               (fun i s => varf s i) (fun k _ => coef k).
  Definition evF (env : list (R -> R)) (ns : list node) : list (R -> R) :=
    eval_nodes (fun _ : R => 0) (fun q _ _ => Q2R q)
               (fun f g s => f s + g s) (fun f g s => f s - g s) (fun f g s => f s * g s) (fun f g s => f s / g s)
               (fun f s => - f s) (fun _ f s => sqrt (f s)) (fun _ f s => exp (f s)) (fun _ f q _ s => Rpower (f s) (Q2R q))
               (fun _ fid out args s => fn fid out (map (fun f => f s) args))
               (fun i s => varf s i) (fun k _ => coef k) env ns.

  (** the function reading is the real reading, pointwise *)
  Lemma evF_pointwise ns : forall envF s,
    map (fun f => f s) (evF envF ns) = evR s (map (fun f => f s) envF) ns.
  Proof.
    induction ns as [|n r IH]; intros envF s; [reflexivity|].
    unfold evF, evR in *. cbn [eval_nodes]. rewrite IH. cbn [map]. f_equal. f_equal.
    assert (G : forall d, nth d envF (fun _ => 0) s = nth d (map (fun f => f s) envF) 0).
    { intros d. rewrite <- (map_nth (fun f : R -> R => f s)). reflexivity. }
    destruct n; cbn [eval_node]; unfold get; rewrite <- ?G; try reflexivity.
    f_equal. rewrite map_map. apply map_ext. intros a. apply G.
  Qed.

  Lemma nth_evF ns k s : nth k (evF [] ns) (fun _ => 0) s = nth k (evR s [] ns) 0.
  Proof.
    pose proof (evF_pointwise ns [] s) as E. cbn [map] in E. rewrite <- E.
    rewrite <- (map_nth (fun f : R -> R => f s)). reflexivity.
  Qed.

  (** side conditions at s0 *)
  Definition node_ok (env : list jet) (n : node) : Prop :=
    match n with
    | NDiv _ b => jv (nth b env (0, 0)) <> 0
    | NSqrt _ a => 0 < jv (nth a env (0, 0))
    | NPow _ a _ _ => 0 < jv (nth a env (0, 0))
    | NCall _ _ _ _ => False
    | _ => True
    end.
  Fixpoint side_ok (env : list jet) (ns : list node) : Prop :=
    match ns with
    | [] => True
    | n :: r => node_ok env n /\ side_ok (jops_node env n :: env) r
    end.

  Definition rel (f : R -> R) (j : jet) : Prop := jv j = f s0 /\ is_derive f s0 (jd j).

  Lemma rel_nth envF envJ d : Forall2 rel envF envJ -> rel (nth d envF (fun _ => 0)) (nth d envJ (0, 0)).
  Proof.
    intros H. revert d. induction H as [|f j lf lj Hr _ IH]; intros d.
    - destruct d; cbn; (split; [reflexivity|apply (is_derive_const 0 s0)]).
    - destruct d; cbn [nth]; [exact Hr|apply IH].
  Qed.

  Lemma is_derive_Rpower_l (f : R -> R) (df q : R) :
    is_derive f s0 df -> 0 < f s0 ->
    is_derive (fun t => Rpower (f t) q) s0 (q * (Rpower (f s0) q / f s0) * df).
  Proof.
    intros Hf Hpos. unfold Rpower.
    replace (q * (exp (q * ln (f s0)) / f s0) * df) with (q * (df * / f s0) * exp (q * ln (f s0)))
      by (field; lra).
    apply (is_derive_comp exp (fun t => q * ln (f t)) s0 (exp (q * ln (f s0))) (q * (df * / f s0)));
      [apply is_derive_exp|].
    apply (is_derive_scal (fun t => ln (f t)) s0 q (df * / f s0)).
    apply (is_derive_comp ln f s0 (/ f s0) df); [apply is_derive_ln; exact Hpos|exact Hf].
  Qed.

  Lemma step_rel envF envJ n : Forall2 rel envF envJ -> node_ok envJ n ->
    rel (fnode envF n) (jops_node envJ n).
  Proof.
    intros H Hok. unfold fnode, jops_node.
    destruct n as [q f|i|k|a b|a b|a b|a b|a|h a|h a|h a q f|h fid out args|atom a]; cbn [eval_node]; unfold get;
      try (destruct (rel_nth _ _ a H) as [A1 A2]); try (destruct (rel_nth _ _ b H) as [B1 B2]);
      cbn [node_ok] in Hok;
      unfold rel, jconst, jadd, jsub, jmul, jdiv, jneg, jsqrt, jexp, jpow, jv, jd, jet in *; cbn [fst snd] in *.
    - split; [reflexivity|apply (is_derive_const (Q2R q) s0)].
    - split; [reflexivity|apply Hvar].
    - split; [reflexivity|apply (is_derive_const (coef k) s0)].
    - split; [rewrite A1, B1; reflexivity|]. apply (is_derive_plus _ _ s0 _ _ A2 B2).
    - split; [rewrite A1, B1; reflexivity|]. apply (is_derive_minus _ _ s0 _ _ A2 B2).
    - split; [rewrite A1, B1; reflexivity|]. rewrite A1, B1. apply (is_derive_mult _ _ s0 _ _ A2 B2 Rmult_comm).
    - rewrite B1 in Hok. split; [rewrite A1, B1; reflexivity|]. rewrite A1, B1.
      replace (nth b envF (fun _ => 0) s0 * nth b envF (fun _ => 0) s0) with (nth b envF (fun _ => 0) s0 ^ 2) by ring.
      apply (is_derive_div _ _ s0 _ _ A2 B2 Hok).
    - split; [rewrite A1; reflexivity|]. apply (is_derive_opp _ s0 _ A2).
    - rewrite A1 in Hok. split; [rewrite A1; reflexivity|]. rewrite A1.
      apply (is_derive_sqrt _ s0 _ A2 Hok).
    - split; [rewrite A1; reflexivity|]. rewrite A1.
      replace (exp (nth a envF (fun _ => 0) s0) * snd (nth a envJ (0, 0)))
        with (snd (nth a envJ (0, 0)) * exp (nth a envF (fun _ => 0) s0)) by ring.
      apply (is_derive_comp exp (nth a envF (fun _ => 0)) s0 _ _ (is_derive_exp _) A2).
    - rewrite A1 in Hok. split; [rewrite A1; reflexivity|]. rewrite A1.
      apply (is_derive_Rpower_l _ _ _ A2 Hok).
    - destruct Hok.
    - split; assumption.
  Qed.

  Lemma run_rel ns : forall envF envJ, Forall2 rel envF envJ -> side_ok envJ ns ->
    Forall2 rel (evF envF ns) (evJ envJ ns).
  Proof.
    induction ns as [|n r IH]; intros envF envJ H Hs; [exact H|].
    unfold evF, evJ in *. cbn [eval_nodes]. destruct Hs as [Hn Hr]. apply IH.
    - constructor; [apply step_rel; assumption|exact H].
    - exact Hr.
  Qed.

  (** value and derivative of every node *)
  Theorem ad_sound ns : side_ok [] ns -> forall k,
    jv (nth k (evJ [] ns) (0, 0)) = nth k (evR s0 [] ns) 0 /\
    is_derive (fun s => nth k (evR s [] ns) 0) s0 (jd (nth k (evJ [] ns) (0, 0))).
  Proof.
    intros Hs k.
    pose proof (run_rel ns [] [] (Forall2_nil _) Hs) as H.
    destruct (rel_nth _ _ k H) as [A1 A2]. split.
    - rewrite A1. apply nth_evF.
    - apply (is_derive_ext (nth k (evF [] ns) (fun _ => 0))); [intros t; apply nth_evF|exact A2].
  Qed.
End AD.
