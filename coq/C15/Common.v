(** C15 -- shared definitions and tactics for reading the traced branch structures over the reals
    (no proof here depends on the generated files). *)
From Coq Require Import ZArith QArith Qreals Reals List Bool Lra.
From P Require Import Expr.
Import ListNotations.
Close Scope Q_scope.
Open Scope R_scope.

(** the double 0.01 *)
Definition d001 : Q := (5764607523034235 # 576460752303423488)%Q.
Lemma d001_is_nearest : (Qabs.Qabs (d001 - (1 # 100)) <= 1 # 1152921504606846976)%Q.   (* 2^-60 *)
Proof. vm_compute. discriminate. Qed.

(** the two values compared by the last test on the value-returning (first) path *)
Definition last_test (t : traced) : nat * nat :=
  match t_paths t with
  | p :: _ => match rev (p_conds p) with c :: _ => (c_a c, c_b c) | [] => (0, 0)%nat end
  | [] => (0, 0)%nat
  end.

(** evaluate the nodes a goal mentions (only those: the environment is never built in full) *)
Ltac ev_nodes ns :=
  repeat match goal with
  | |- context [@nth R ?k (evalR ?fn ?v ?c ns) 0] =>
      let e := constr:(@nth R k (evalR fn v c ns) 0) in
      let e' := eval lazy [evalR eval_nodes eval_node get nth map ns] in e in
      change e with e'
  end.

Ltac open_run tr :=
  unfold runR, resR;
  lazy [tr t_paths t_nodes select_pathR forallb p_conds cond_holdsR c_cmp c_a c_b c_expect andb].

(** split on every comparison the goal still mentions, simplifying after each split *)
Ltac split_cmps :=
  unfold Rleb, Rltb;
  repeat (match goal with
          | |- context [Rle_dec ?a ?b] => destruct (Rle_dec a b)
          | |- context [Rlt_dec ?a ?b] => destruct (Rlt_dec a b)
          end; cbn [eqb andb p_out map]).

Ltac q2r := unfold Q2R in *; cbn [Qnum Qden] in *.

Definition has_value (r : rres) : Prop := exists l, r = RRet l.

