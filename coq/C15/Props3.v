(** C15 -- property theorems, part 3: density and energy of cowat and of supst come from ONE
    potential (Potential.v, Potential67.v).

    [CW.ns] is the DAG traced from the current cowat with the exponent of Z ** (5. / 17.) set to
    the rational 5/17 (the source's exponent is the double nearest 5/17: Props2
    cowat_exponent_is_5_17); [ST.ns] is the DAG traced from the current supst, unchanged.
    [chi coef theta beta], [eps coef theta beta]: the reduced volume and reduced enthalpy nodes
    of the DAG evaluated over R at t = 647.3 theta - 273.15, p = 2.212e7 beta (the doubles'
    exact values), for ARBITRARY coefficient values [coef].
    [admissible]: every divisor met is non-zero, every argument of sqrt / ** is positive, every
    atom that stands for a divisor or a parameter is non-zero (satisfiable: thorough/Admissible.v). *)
Set Warnings "-ambiguous-paths,-notation-overridden".
From Coq Require Import ZArith QArith Qreals Reals List Bool.
From Coquelicot Require Import Coquelicot.
From Gen Require Import GenThermo GenTraced.
From P Require Import Expr Laurent Expand Jet PolyJet Potential Potential67.
Import ListNotations.
Close Scope Q_scope.
Open Scope R_scope.

(** forward-mode differentiation of a traced DAG is correct (any DAG, any point) *)
Theorem dag_differentiation_sound : forall (varf : R -> nat -> R) (dvar coef : nat -> R) (fn : fnR) (s0 : R),
  (forall i, is_derive (fun s => varf s i) s0 (dvar i)) ->
  forall ns, side_ok varf dvar coef s0 [] ns -> forall k,
  jv (nth k (evJ varf dvar coef s0 [] ns) (0, 0)) = nth k (evR varf coef fn s0 [] ns) 0 /\
  is_derive (fun s => nth k (evR varf coef fn s [] ns) 0) s0 (jd (nth k (evJ varf dvar coef s0 [] ns) (0, 0))).
Proof. exact ad_sound. Qed.
Print Assumptions dag_differentiation_sound.

(** the zero test modulo definitions is sound (any polynomial, any definitions) *)
Theorem zero_test_sound : forall (N : nat) (rho : nat -> R) (unitb : nat -> bool),
  (forall i, unitb i = true -> rho i <> 0) ->
  forall defs E, defs_hold rho unitb defs -> poly_ok unitb E = true -> zero_mod N unitb defs E = true -> dpoly rho E = 0.
Proof. exact zero_mod_sound. Qed.
Print Assumptions zero_test_sound.

(** the run of the current cowat / supst DAG establishes everything the Maxwell theorem needs *)
Theorem cowat_maxwell_check :
  maxwell_check CW.ns CW.N CW.tb CW.tvb CW.vb CW.cb CW.claims CW.st0 Tc1_Q tc_k_Q Pc1_Q CW.pc CW.pe = true.
Proof. exact CW.check. Qed.
Print Assumptions cowat_maxwell_check.
Theorem supst_maxwell_check :
  maxwell_check ST.ns ST.N ST.tb ST.tvb ST.vb ST.cb ST.claims ST.st0 Tc1_Q tc_k_Q Pc1_Q ST.pc ST.pe = true.
Proof. exact ST.check. Qed.
Print Assumptions supst_maxwell_check.

(** cowat: d EPS / d beta = CHI - theta d CHI / d theta, i.e. CHI and EPS derive from one reduced
    Gibbs function; and the returned values are D = 1 / (CHI vstar), U = EPS hstar - p CHI vstar *)
Theorem cowat_single_potential : forall (coef : nat -> R) (theta beta : R),
  CW.admissible coef theta beta ->
  exists dchi, is_derive (fun x => CW.chi coef x beta) theta dchi /\
               is_derive (fun y => CW.eps coef theta y) beta (CW.chi coef theta beta - theta * dchi).
Proof. exact CW.maxwell. Qed.
Print Assumptions cowat_single_potential.

Theorem cowat_outputs_from_chi_eps : forall (fn : fnR) (coef : nat -> R) (t p : R),
  let env := evalR fn (fun i => nth i [t; p] 0) coef CW.ns in
  nth CW.pD env 0 = 1 / (nth CW.pc env 0 * Q2R CW.vstar) /\
  nth CW.pU env 0 = nth CW.pe env 0 * Q2R CW.hstar - p * (nth CW.pc env 0 * Q2R CW.vstar).
Proof. exact CW.outputs. Qed.
Print Assumptions cowat_outputs_from_chi_eps.

Theorem supst_single_potential : forall (coef : nat -> R) (theta beta : R),
  ST.admissible coef theta beta ->
  exists dchi, is_derive (fun x => ST.chi coef x beta) theta dchi /\
               is_derive (fun y => ST.eps coef theta y) beta (ST.chi coef theta beta - theta * dchi).
Proof. exact ST.maxwell. Qed.
Print Assumptions supst_single_potential.

Theorem supst_outputs_from_chi_eps : forall (fn : fnR) (coef : nat -> R) (t p : R),
  let env := evalR fn (fun i => nth i [t; p] 0) coef ST.ns in
  nth ST.pD env 0 = 1 / (nth ST.pc env 0 * Q2R ST.vstar) /\
  nth ST.pU env 0 = nth ST.pe env 0 * Q2R ST.hstar - p * (nth ST.pc env 0 * Q2R ST.vstar).
Proof. exact ST.outputs. Qed.
Print Assumptions supst_outputs_from_chi_eps.
