(** C15 -- how the two-stage separated steam fraction relates to the one-stage one (Steam.v, SteamEnds.v):
    a second separator at the same liquid enthalpy (in particular at the same pressure) changes nothing;
    a second separator whose saturated-liquid enthalpy is not above the first one's (and whose steam
    enthalpy is not below the first-stage liquid's) never yields less steam than one stage alone.
    About [ssf1] / [ssf2], the traced function of the current source, tsat / cowat / supst abstract. *)
From Coq Require Import ZArith QArith Qreals Reals List Bool Lra.
From P Require Import Expr Common Steam SteamEnds.
From Gen Require Import GenThermo GenTraced.
Import ListNotations.
Close Scope Q_scope.
Open Scope R_scope.

Lemma stage_gain x1 x2 : 0 <= x2 <= 1 -> clamp01 x1 <= clamp01 (x1 + (1 - x1) * x2).
Proof.
  intros H. destruct (Rle_dec x1 1) as [L|G].
  - apply clamp01_mono.
    assert (0 <= (1 - x1) * x2) by (apply Rmult_le_pos; lra). lra.
  - rewrite (clamp01_high (x1 + (1 - x1) * x2)).
    + apply clamp01_range.
    + replace (x1 + (1 - x1) * x2) with (1 + (x1 - 1) * (1 - x2)) by ring.
      assert (0 <= (x1 - 1) * (1 - x2)) by (apply Rmult_le_pos; lra). lra.
Qed.

Section Stages.
  Variables (fn : fnR) (coef : nat -> R).

  Theorem ssf2_same_liquid h p1 p2 :
    hl fn p1 < hs fn p1 -> hl fn p2 < hs fn p2 -> hl fn p2 = hl fn p1 ->
    ssf2 fn coef h p1 p2 = ssf1 fn coef h p1.
  Proof.
    intros H1 H2 E.
    rewrite (ssf2_mass_balance fn coef h p1 p2 H1 H2).
    destruct (ssf1_lever_rule fn coef h p1 H1) as [-> _].
    f_equal. unfold lever at 3. rewrite E.
    replace (hl fn p1 - hl fn p1) with 0 by ring. unfold Rdiv. ring.
  Qed.

  Theorem ssf2_same_pressure h p1 :
    hl fn p1 < hs fn p1 -> ssf2 fn coef h p1 p1 = ssf1 fn coef h p1.
  Proof. intros H. apply ssf2_same_liquid; auto. Qed.

  Theorem ssf2_ge_ssf1 h p1 p2 :
    hl fn p1 < hs fn p1 -> hl fn p2 < hs fn p2 -> hl fn p2 <= hl fn p1 <= hs fn p2 ->
    ssf1 fn coef h p1 <= ssf2 fn coef h p1 p2.
  Proof.
    intros H1 H2 H3.
    rewrite (ssf2_mass_balance fn coef h p1 p2 H1 H2).
    destruct (ssf1_lever_rule fn coef h p1 H1) as [-> _].
    apply stage_gain. apply lever_01; assumption.
  Qed.
End Stages.
