(** C15 -- the range theorem of cowat and the inverse theorem of tsat, closed for the current
    source's own saturation line (generic theorems of Bounds.v / Tsat.v + the facts of SatFacts.v). *)
Set Warnings "-ambiguous-paths,-notation-overridden".
From Coq Require Import ZArith QArith Qreals Reals List Bool Lra.
From P Require Import Expr Common BoundsDefs Bounds Tsat SatFacts.
From Gen Require Import GenThermo GenTraced.
Import ListNotations.
Close Scope Q_scope.
Open Scope R_scope.

(** hence, for the current source with its own sat: cowat with range checking on returns a value
    exactly on 0.01 <= t <= 350, sat(t) <= p <= 100 MPa *)
Lemma cowat_bounds_67 t p :
  (cowat_in_range fn67 t p -> has_value (runR cowat_on_traced fn67 coef_cowat [t; p])) /\
  (~ cowat_in_range fn67 t p -> runR cowat_on_traced fn67 coef_cowat [t; p] = RNone).
Proof. apply cowat_bounds. apply zp_in_range. Qed.

(** and tsat inverts the current source's sat on the whole interval, for any root finder
    meeting its specification *)
Lemma sat67_tsat_inverse (solve : R -> R) (coef : nat -> R) :
  (forall p, sat67 (Q2R d001) <= p <= Q2R Pc1_Q -> Q2R d001 <= solve p <= Q2R Tc1_C_Q /\ sat67 (solve p) = p) ->
  forall t, Q2R d001 <= t <= Q2R Tc1_C_Q ->
  tsat_on sat67 solve coef (sat67 t) = RRet [t] /\ tsat_off sat67 solve coef (sat67 t) = RRet [t].
Proof.
  intros Hs t Ht. apply tsat_of_sat; [exact Hs|exact sat67_increasing|exact Ht|].
  rewrite sat67_at_Tc1. lra.
Qed.
