(** C15 -- what the separated steam fraction IS (beyond range and monotonicity, Steam.v):

    one stage: the lever rule x1 = (h - hl1) / (hs1 - hl1) clamped to [0, 1]: exactly 0 up to the
    saturated-liquid enthalpy, exactly 1 from the saturated-steam enthalpy on, the lever rule between;

    two stages: clamp01 (x1 + (1 - x1) * x2) with x2 = (hl1 - hl2) / (hs2 - hl2) the fraction of the
    first-stage liquid (enthalpy hl1) that flashes at the second separator pressure -- the source's
    closed-form slope / intercept pair is that mass balance.

    Both about [ssf1] / [ssf2] of Steam.v, i.e. the traced function of the current source, for every
    interpretation of tsat / cowat / supst, under the orderings hl < hs at each separator pressure. *)
From Coq Require Import ZArith QArith Qreals Reals List Bool Lra.
From P Require Import Expr Common Steam.
From Gen Require Import GenThermo GenTraced.
Import ListNotations.
Close Scope Q_scope.
Open Scope R_scope.

Lemma clamp01_low x : x <= 0 -> clamp01 x = 0.
Proof.
  intros H. unfold clamp01, Rmax, Rmin.
  destruct (Rle_dec x 1); destruct (Rle_dec _ 0); lra.
Qed.

Lemma clamp01_high x : 1 <= x -> clamp01 x = 1.
Proof.
  intros H. unfold clamp01, Rmax, Rmin.
  destruct (Rle_dec x 1); destruct (Rle_dec _ 0); lra.
Qed.

Lemma clamp01_id x : 0 <= x <= 1 -> clamp01 x = x.
Proof.
  intros H. unfold clamp01, Rmax, Rmin.
  destruct (Rle_dec x 1); destruct (Rle_dec _ 0); lra.
Qed.

Section Ends.
  Variables (fn : fnR) (coef : nat -> R).

  Definition lever (h a b : R) : R := (h - a) / (b - a).

  Lemma lever_le0 h a b : a < b -> h <= a -> lever h a b <= 0.
  Proof.
    intros Hab H. unfold lever, Rdiv.
    assert (0 < / (b - a)) by (apply Rinv_0_lt_compat; lra).
    replace ((h - a) * / (b - a)) with (- ((a - h) * / (b - a))) by ring.
    assert (0 <= (a - h) * / (b - a)) by (apply Rmult_le_pos; lra). lra.
  Qed.

  Lemma lever_ge1 h a b : a < b -> b <= h -> 1 <= lever h a b.
  Proof.
    intros Hab H. unfold lever, Rdiv.
    assert (Hi : 0 < / (b - a)) by (apply Rinv_0_lt_compat; lra).
    replace ((h - a) * / (b - a)) with (1 + (h - b) * / (b - a)) by (field; lra).
    assert (0 <= (h - b) * / (b - a)) by (apply Rmult_le_pos; lra). lra.
  Qed.

  Lemma lever_01 h a b : a < b -> a <= h <= b -> 0 <= lever h a b <= 1.
  Proof.
    intros Hab H. unfold lever, Rdiv.
    assert (Hi : 0 < / (b - a)) by (apply Rinv_0_lt_compat; lra).
    split.
    - apply Rmult_le_pos; lra.
    - replace ((h - a) * / (b - a)) with (1 - (b - h) * / (b - a)) by (field; lra).
      assert (0 <= (b - h) * / (b - a)) by (apply Rmult_le_pos; lra). lra.
  Qed.

  Theorem ssf1_lever_rule h p1 :
    hl fn p1 < hs fn p1 ->
    ssf1 fn coef h p1 = clamp01 (lever h (hl fn p1) (hs fn p1)) /\
    (h <= hl fn p1 -> ssf1 fn coef h p1 = 0) /\
    (hs fn p1 <= h -> ssf1 fn coef h p1 = 1) /\
    (hl fn p1 <= h <= hs fn p1 -> ssf1 fn coef h p1 = (h - hl fn p1) / (hs fn p1 - hl fn p1)).
  Proof.
    intros H. unfold ssf1. rewrite ssf1_value. cbv beta iota delta [value_of].
    rewrite (frac1_lever fn h p1 H). fold (lever h (hl fn p1) (hs fn p1)).
    split; [reflexivity|]. split; [|split]; intros Hh.
    - apply clamp01_low. apply lever_le0; assumption.
    - apply clamp01_high. apply lever_ge1; assumption.
    - apply clamp01_id. apply lever_01; assumption.
  Qed.

  (** two-stage flash as a mass balance *)
  Lemma frac2_balance h p1 p2 :
    hl fn p1 < hs fn p1 -> hl fn p2 < hs fn p2 ->
    frac2 fn h p1 p2 =
      lever h (hl fn p1) (hs fn p1) +
      (1 - lever h (hl fn p1) (hs fn p1)) * lever (hl fn p1) (hl fn p2) (hs fn p2).
  Proof.
    intros H1 H2. unfold frac2, slope2, lever.
    generalize (hl fn p1) (hs fn p1) (hl fn p2) (hs fn p2) H1 H2. clear H1 H2.
    intros a b c d H1 H2. field. split; lra.
  Qed.

  Theorem ssf2_mass_balance h p1 p2 :
    hl fn p1 < hs fn p1 -> hl fn p2 < hs fn p2 ->
    ssf2 fn coef h p1 p2 =
      clamp01 (lever h (hl fn p1) (hs fn p1) +
               (1 - lever h (hl fn p1) (hs fn p1)) * lever (hl fn p1) (hl fn p2) (hs fn p2)).
  Proof.
    intros H1 H2. unfold ssf2. rewrite ssf2_value. cbv beta iota delta [value_of].
    rewrite (frac2_balance h p1 p2 H1 H2). reflexivity.
  Qed.
End Ends.
