(** C15 -- the IAPWS-97 routines answer on the whole common range, limits included: on
    0.01..350 degC up to EXACTLY 100 MPa IAPWS97.cowat returns a value, on 0.01..800 degC up to
    exactly 100 MPa IAPWS97.supst does, on 0.01..tcritical IAPWS97.sat does (branch structures by
    symbolic execution of the current IAPWS97.py).  Without this the agreement clause would have
    nothing to compare with on an edge of the range. *)
From Coq Require Import ZArith QArith Qreals Reals List Bool Lra.
From P Require Import Expr Common.
From Gen Require Import GenThermo GenTraced.
Import ListNotations.
Close Scope Q_scope.
Open Scope R_scope.

Section Guard97.
  Variables (fn : fnR) (coef : nat -> R).

  Lemma cowat97_defined t p : t <= Q2R (350 # 1) -> p <= Q2R (100000000 # 1) ->
    has_value (runR cowat97_traced fn coef [t; p]).
  Proof.
    intros Ht Hp. open_run cowat97_traced. ev_nodes cowat97_nodes. unfold has_value.
    split_cmps; try (eexists; reflexivity); exfalso; lra.
  Qed.

  Lemma cowat97_none t p : ~ (t <= Q2R (350 # 1) /\ p <= Q2R (100000000 # 1)) ->
    runR cowat97_traced fn coef [t; p] = RNone.
  Proof.
    intros HN. open_run cowat97_traced. ev_nodes cowat97_nodes.
    split_cmps; try reflexivity; exfalso; apply HN; lra.
  Qed.

  Lemma supst97_defined t p : t <= Q2R (1000 # 1) -> p <= Q2R (100000000 # 1) ->
    has_value (runR supst97_traced fn coef [t; p]).
  Proof.
    intros Ht Hp. open_run supst97_traced. ev_nodes supst97_nodes. unfold has_value.
    split_cmps; try (eexists; reflexivity); exfalso; lra.
  Qed.

  Lemma sat97_defined t : 0 <= t <= Q2R i97_tcritical_Q -> has_value (runR sat97_traced fn coef [t]).
  Proof.
    intros Ht. open_run sat97_traced. ev_nodes sat97_nodes. unfold has_value, i97_tcritical_Q in *.
    replace (Q2R 0) with 0 by (unfold Q2R; cbn; lra).
    split_cmps; try (eexists; reflexivity); exfalso; lra.
  Qed.
End Guard97.
