(** C15 -- the region-classifier theorem instantiated with the boundary curves of the current
    sources: [regions_agree] (Regions.v) has sat and b23p of both modules abstract; here they are
    the real functions read off the traced DAGs (sat67, b23p67 of t2thermo.py; sat97, b23p97 of
    IAPWS97.py), and "away from the boundary curves" becomes a stated margin around the IAPWS-97
    curves alone: more than 0.2 % in pressure from the saturation curve (t <= 350), more than
    0.05 % from the B23 curve (Tc1_C < t <= 590).  The margins are what separates the two modules'
    curves: |sat67 - sat97| <= 0.2 % sat97 and |b23p67 - b23p97| <= 0.05 % b23p97 (SatFacts.v,
    interval arithmetic). *)
Set Warnings "-ambiguous-paths,-notation-overridden".
From Coq Require Import ZArith QArith Qreals Reals List Bool Lra.
From Coquelicot Require Import Rcomplements.
From Interval Require Import Tactic.
From P Require Import Expr Common BoundsDefs Regions SatFacts.
From Gen Require Import GenThermo GenTraced.
Import ListNotations.
Close Scope Q_scope.
Open Scope R_scope.

Definition fn97 : fnR := fun fid _ args =>
  if Nat.eqb fid f_sat then sat97 (hd 0 args) else if Nat.eqb fid f_b23p then b23p97 (hd 0 args) else 0.

Lemma Rabs_gt_cases x m : m < Rabs x -> x < - m \/ m < x.
Proof. unfold Rabs. destruct (Rcase_abs x); intros H; [left|right]; lra. Qed.

Lemma regions_agree_67_97_proof (coef67 coef97 : nat -> R) (t p : R) :
  t <= Q2R (350 # 1) \/ Q2R Tc1_C_Q < t ->
  (Q2R d001 <= t -> t <= Q2R (350 # 1) -> 2 / 1000 * sat97 t < Rabs (p - sat97 t)) ->
  (Q2R Tc1_C_Q < t -> t <= Q2R (590 # 1) -> 5 / 10000 * b23p97 t < Rabs (p - b23p97 t)) ->
  region67 fn67 coef67 t p = region97 fn97 coef97 t p.
Proof.
  intros Hreg Hs Hb.
  destruct (Rlt_le_dec t (Q2R d001)) as [Lo|Lo].
  - destruct (regions_none fn67 fn97 coef67 coef97 t p) as [E1 E2]; [lra|]. rewrite E1, E2. reflexivity.
  - apply regions_agree_proof; [exact Hreg|].
    unfold away_from_curves, fn67, fn97. cbn [Nat.eqb f_sat f_b23p hd]. split.
    + intros H350. specialize (Hs Lo H350).
      assert (R : Q2R d001 <= t <= Q2R i97_tcritical_Q).
      { split; [exact Lo|]. unfold i97_tcritical_Q. revert H350. q2r. lra. }
      pose proof (sat_agree t R) as A. apply Rabs_le_between in A.
      destruct (Rabs_gt_cases _ _ Hs) as [C|C]; [left|right]; lra.
    + intros Hc H590. specialize (Hb Hc H590).
      assert (R : 350 <= t <= 590) by (revert Hc H590; unfold Tc1_C_Q; q2r; lra).
      destruct (b23_agree_num t R) as [P A]. apply Rabs_le_between in A.
      destruct (Rabs_gt_cases _ _ Hb) as [C|C]; [left|right]; lra.
Qed.

(** the margins are non-vacuous: 20 degC / 1 MPa (liquid) and 450 degC / 10 MPa (steam side of B23) *)
Example regions_67_97_inhabited :
  2 / 1000 * sat97 20 < Rabs (1000000 - sat97 20) /\ 5 / 10000 * b23p97 450 < Rabs (10000000 - b23p97 450).
Proof.
  split.
  - assert (B : 2000 <= sat97 20 <= 2700).
    { unfold sat97. lazy [out_pos sat97_traced t_paths p_out nth].
      lazy [evalR eval_nodes eval_node get nth map sat97_nodes coefQ sat97_coefs_Q i97_nr4_Q app]. unfold Q2R; cbn [Qnum Qden].
      split; interval. }
    rewrite Rabs_right by lra. lra.
  - assert (B : 30000000 <= b23p97 450 <= 40000000).
    { unfold b23p97. lazy [out_pos b23p97_traced t_paths p_out nth].
      lazy [evalR eval_nodes eval_node get nth map b23p97_nodes coefQ b23p97_coefs_Q i97_nr23_Q app]. unfold Q2R; cbn [Qnum Qden].
      split; interval. }
    rewrite Rabs_left by lra. lra.
Qed.
