(** C15 -- property theorems, part 5: closed forms for the current source; uses the numerical facts about the current source's saturation line (interval
    arithmetic over the reals; see SatFacts.v). *)
Set Warnings "-ambiguous-paths,-notation-overridden".
From Coq Require Import ZArith QArith Qreals Reals List Bool.
From Gen Require Import GenThermo GenTraced.
From P Require Import Expr Common BoundsDefs Bounds Tsat Regions SatFacts Closed67 Regions67.
Import ListNotations.
Close Scope Q_scope.
Open Scope R_scope.

(** tsat inverts the current source's sat on the whole closed interval, for any root finder that
    returns a root of sat(t) - p inside the interval *)
Theorem sat67_tsat67_inverse : forall (solve : R -> R) (coef : nat -> R),
  (forall p, sat67 (Q2R d001) <= p <= Q2R Pc1_Q -> Q2R d001 <= solve p <= Q2R Tc1_C_Q /\ sat67 (solve p) = p) ->
  forall t, Q2R d001 <= t <= Q2R Tc1_C_Q ->
  tsat_on sat67 solve coef (sat67 t) = RRet [t] /\ tsat_off sat67 solve coef (sat67 t) = RRet [t].
Proof. exact sat67_tsat_inverse. Qed.
Print Assumptions sat67_tsat67_inverse.

(** for the current source with its own sat the bounds flag of cowat is exact with no side condition *)
Theorem cowat_bounds_flag_exact_67 : forall t p : R,
  (cowat_in_range fn67 t p -> has_value (runR cowat_on_traced fn67 coef_cowat [t; p])) /\
  (~ cowat_in_range fn67 t p -> runR cowat_on_traced fn67 coef_cowat [t; p] = RNone).
Proof. exact cowat_bounds_67. Qed.
Print Assumptions cowat_bounds_flag_exact_67.

(** the region classifiers of the two current sources, with THEIR OWN boundary functions, agree
    for t <= 350 or t > Tc1_C at every pressure more than 0.2 % away from the IAPWS-97 saturation
    pressure (t <= 350) / more than 0.05 % away from the IAPWS-97 B23 pressure (Tc1_C < t <= 590) *)
Theorem regions_agree_67_97 : forall (coef67 coef97 : nat -> R) (t p : R),
  t <= Q2R (350 # 1) \/ Q2R Tc1_C_Q < t ->
  (Q2R d001 <= t -> t <= Q2R (350 # 1) -> 2 / 1000 * sat97 t < Rabs (p - sat97 t)) ->
  (Q2R Tc1_C_Q < t -> t <= Q2R (590 # 1) -> 5 / 10000 * b23p97 t < Rabs (p - b23p97 t)) ->
  region67 fn67 coef67 t p = region97 fn97 coef97 t p.
Proof. exact regions_agree_67_97_proof. Qed.
Print Assumptions regions_agree_67_97.
