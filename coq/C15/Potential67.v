(** C15 -- the single-potential (Maxwell) relation for t2thermo.cowat and t2thermo.supst: the
    summaries (atom layout, virtual atoms, claims for the divisors) and the two checks.

    cowat atoms:  0 theta, 1 beta | 2 S = sqrt(ZP), 3 W = Z ** (5/17) | 4 A = sa7 + theta^19,
                  5 Bq = sa8 + theta^11, 6 Dd = sa10 + beta | 7 + c: cut c (Z itself is cut 1) |
                  19 + k: coefficient k (cowat_a then cowat_sa)
    supst atoms:  0 theta, 1 beta | 2 X = exp(b (1 - theta)) | 3 SD1, 4 SD2, 5 SD3 (the three
                  denominators 1/beta^k + b_6k X^..) | 6 + c: cut c (BETAL is cut 0) | 19 + k:
                  coefficient k (supst_b then supst_sb)
    The claims say which monomial each divisor is; every claim is checked by the run against
    the polynomial the DAG actually computes there. *)
Set Warnings "-ambiguous-paths,-notation-overridden".
From Coq Require Import ZArith QArith Qreals Reals List Bool Lia Lra.
From Coquelicot Require Import Coquelicot.
From P Require Import Expr Laurent Expand Jet PolyJet Potential.
From Gen Require Import GenThermo GenTraced.
Import ListNotations.
Close Scope Q_scope.
Open Scope R_scope.

Module CW.
  Definition ns := fixpow (5 # 17) cowat_off_nodes.
  Definition tb := 2%nat. Definition tvb := 4%nat. Definition vb := 7%nat.
  Definition cb := (vb + cowat_off_ncuts)%nat.
  Definition N := (cb + length cowat_off_coefs_Q)%nat.
  Definition cf (k : nat) := (cb + k)%nat.
  Definition aA := 4%nat. Definition aBq := 5%nat. Definition aDd := 6%nat.
  (* cowat_sa[k] is coefficient 24 + k *)
  Definition st0 : st :=
    map (fun jd => (fst jd, pden N (snd jd)))
        [(aDd, PAdd (PA (cf 34)) (PA 1)); (aBq, PAdd (PA (cf 32)) (PP 0 11)); (aA, PAdd (PA (cf 31)) (PP 0 19))].
  Definition claims : list claim :=
    [CAuto;                          (* TKR6 *)
     CAtom;                          (* Z = Y + sqrt(ZP), the base of ** *)
     CAuto;                          (* CZ = W *)
     CMono (pden N (PA aA));         (* AA1 = sa7 + TKR19 *)
     CMono (pden N (PA aBq));        (* sa8 + TKR11 *)
     CMono (pden N (PP aDd 4));      (* DD4 *)
     CAuto;                          (* TKR20 *)
     COpaque;                        (* V, the divisor of D = 1 / V *)
     CAuto;                          (* TKR7 *)
     CMono (pden N (PP aA 2));       (* AA1 * AA1 *)
     CMono (pden N (PP aBq 2));      (* BB2 *)
     CMono (pden N (PP aDd 3))].     (* EE3 *)
  Definition outs := ret_outs cowat_off_traced.
  Definition shp := out_shape ns outs.
  Definition pD := nth 0 outs 0%nat. Definition pU := nth 1 outs 0%nat.
  Definition pc := match shp with Some (a, _, _, _) => a | None => 0%nat end.
  Definition pe := match shp with Some (_, b, _, _) => b | None => 0%nat end.
  Definition vstar : Q := match shp with Some (_, _, v, _) => v | None => 0%Q end.
  Definition hstar : Q := match shp with Some (_, _, _, h) => h | None => 0%Q end.

  Lemma check : maxwell_check ns N tb tvb vb cb claims st0 Tc1_Q tc_k_Q Pc1_Q pc pe = true.
  Proof. vm_compute. reflexivity. Qed.
  Lemma shape : out_shape ns [pD; pU] = Some (pc, pe, vstar, hstar).
  Proof. vm_compute. reflexivity. Qed.

  Definition chi (coef : nat -> R) (theta beta : R) : R := value ns Tc1_Q tc_k_Q Pc1_Q coef pc theta beta.
  Definition eps (coef : nat -> R) (theta beta : R) : R := value ns Tc1_Q tc_k_Q Pc1_Q coef pe theta beta.
  Definition admissible (coef : nat -> R) (theta beta : R) : Prop :=
    Potential.admissible ns tb tvb vb cb st0 Tc1_Q tc_k_Q Pc1_Q coef theta beta.

  Lemma maxwell coef theta beta : admissible coef theta beta ->
    exists dchi, is_derive (fun x => chi coef x beta) theta dchi /\
                 is_derive (fun y => eps coef theta y) beta (chi coef theta beta - theta * dchi).
  Proof. apply (maxwell_from_check _ _ _ _ _ _ _ _ _ _ _ _ _ check). Qed.

  Lemma outputs (fn : fnR) (coef : nat -> R) (t p : R) :
    let env := evalR fn (fun i => nth i [t; p] 0) coef ns in
    nth pD env 0 = 1 / (nth pc env 0 * Q2R vstar) /\
    nth pU env 0 = nth pe env 0 * Q2R hstar - p * (nth pc env 0 * Q2R vstar).
  Proof. exact (out_shape_sound ns pD pU pc pe vstar hstar shape fn (fun i => nth i [t; p] 0) coef). Qed.
End CW.

Module ST.
  Definition ns := supst_off_nodes.
  Definition tb := 2%nat. Definition tvb := 3%nat. Definition vb := 6%nat.
  Definition cb := (vb + supst_off_ncuts)%nat.
  Definition N := (cb + length supst_off_coefs_Q)%nat.
  Definition cf (k : nat) := (cb + k)%nat.
  Definition aX := 2%nat.
  Definition aS1 := 3%nat. Definition aS2 := 4%nat. Definition aS3 := 5%nat.
  (* supst_sb entries 61, 71, 81, 82 are coefficients 32, 33, 34, 35 *)
  Definition st0 : st :=
    map (fun jd => (fst jd, pden N (snd jd)))
        [(aS3, PAdd (PP 1 (-6)) (PMul (PAdd (PMul (PA (cf 34)) (PP aX 27)) (PA (cf 35))) (PP aX 27)));
         (aS2, PAdd (PP 1 (-5)) (PMul (PA (cf 33)) (PP aX 19)));
         (aS1, PAdd (PP 1 (-4)) (PMul (PA (cf 32)) (PP aX 14)))].
  Definition claims : list claim :=
    [CAtom;                          (* BETAL *)
     CAuto; CAuto; CAuto; CAuto;     (* BETA, BETA4, BETA5, BETA6 *)
     CMono (pden N (PP aS1 2)); CMono (pden N (PP aS2 2)); CMono (pden N (PP aS3 2));   (* SD12, SD22, SD32 *)
     CAuto;                          (* BETA7 *)
     COpaque;                        (* V *)
     CMono (pden N (PA aS1)); CMono (pden N (PA aS2)); CMono (pden N (PA aS3))].        (* SD1, SD2, SD3 *)
  Definition outs := ret_outs supst_off_traced.
  Definition shp := out_shape ns outs.
  Definition pD := nth 0 outs 0%nat. Definition pU := nth 1 outs 0%nat.
  Definition pc := match shp with Some (a, _, _, _) => a | None => 0%nat end.
  Definition pe := match shp with Some (_, b, _, _) => b | None => 0%nat end.
  Definition vstar : Q := match shp with Some (_, _, v, _) => v | None => 0%Q end.
  Definition hstar : Q := match shp with Some (_, _, _, h) => h | None => 0%Q end.

  Lemma check : maxwell_check ns N tb tvb vb cb claims st0 Tc1_Q tc_k_Q Pc1_Q pc pe = true.
  Proof. vm_compute. reflexivity. Qed.
  Lemma shape : out_shape ns [pD; pU] = Some (pc, pe, vstar, hstar).
  Proof. vm_compute. reflexivity. Qed.

  Definition chi (coef : nat -> R) (theta beta : R) : R := value ns Tc1_Q tc_k_Q Pc1_Q coef pc theta beta.
  Definition eps (coef : nat -> R) (theta beta : R) : R := value ns Tc1_Q tc_k_Q Pc1_Q coef pe theta beta.
  Definition admissible (coef : nat -> R) (theta beta : R) : Prop :=
    Potential.admissible ns tb tvb vb cb st0 Tc1_Q tc_k_Q Pc1_Q coef theta beta.

  Lemma maxwell coef theta beta : admissible coef theta beta ->
    exists dchi, is_derive (fun x => chi coef x beta) theta dchi /\
                 is_derive (fun y => eps coef theta y) beta (chi coef theta beta - theta * dchi).
  Proof. apply (maxwell_from_check _ _ _ _ _ _ _ _ _ _ _ _ _ check). Qed.

  Lemma outputs (fn : fnR) (coef : nat -> R) (t p : R) :
    let env := evalR fn (fun i => nth i [t; p] 0) coef ns in
    nth pD env 0 = 1 / (nth pc env 0 * Q2R vstar) /\
    nth pU env 0 = nth pe env 0 * Q2R hstar - p * (nth pc env 0 * Q2R vstar).
  Proof. exact (out_shape_sound ns pD pU pc pe vstar hstar shape fn (fun i => nth i [t; p] 0) coef). Qed.
End ST.
