(** C15 -- the two region classifiers (t2thermo.region, IAPWS97.region) agree below 350 degC and
    above the critical temperature, away from the boundary curves.

    Both classifiers are the branch structures obtained by symbolic execution of the current
    sources, with the boundary functions (sat and b23p of either module) abstract: the theorem
    holds for EVERY pair of saturation curves and every pair of B23 curves.  "Away from the
    boundary curves" is exactly: p is on the same side of both modules' curves. *)
From Coq Require Import ZArith QArith Qreals Reals List Bool Lra.
From P Require Import Expr Common.
From Gen Require Import GenThermo GenTraced.
Import ListNotations.
Close Scope Q_scope.
Open Scope R_scope.

Section Regions.
  Variables (fn67 fn97 : fnR) (coef67 coef97 : nat -> R).
  Let sat67 t := fn67 f_sat 0%nat [t].
  Let sat97 t := fn97 f_sat 0%nat [t].
  Let b67 t := fn67 f_b23p 0%nat [t].
  Let b97 t := fn97 f_b23p 0%nat [t].

  Definition region67 (t p : R) : rres := runR region67_traced fn67 coef67 [t; p].
  Definition region97 (t p : R) : rres := runR region97_traced fn97 coef97 [t; p].

  (** strictly on one side of both saturation curves / both B23 curves *)
  Definition away_from_curves (t p : R) : Prop :=
    (t <= Q2R (350 # 1) -> (p < sat67 t /\ p < sat97 t) \/ (sat67 t < p /\ sat97 t < p)) /\
    (Q2R Tc1_C_Q < t -> t <= Q2R (590 # 1) -> (p < b67 t /\ p < b97 t) \/ (b67 t < p /\ b97 t < p)).

  Lemma regions_agree_proof t p :
    t <= Q2R (350 # 1) \/ Q2R Tc1_C_Q < t -> away_from_curves t p -> region67 t p = region97 t p.
  Proof.
    unfold region67, region97.
    open_run region67_traced. open_run region97_traced.
    ev_nodes region67_nodes. ev_nodes region97_nodes.
    unfold away_from_curves, sat67, sat97, b67, b97, f_sat, f_b23p, Tc1_C_Q.
    intros Hreg [Hs Hb].
    split_cmps; try reflexivity; exfalso; q2r;
      first [ lra
            | destruct Hreg as [Hreg|Hreg]; [|lra]; destruct (Hs Hreg) as [[? ?]|[? ?]]; lra
            | destruct Hreg as [Hreg|Hreg]; [lra|]; destruct (Hb Hreg ltac:(lra)) as [[? ?]|[? ?]]; lra
            | destruct Hreg as [Hreg|Hreg]; lra ].
  Qed.

  (** outside 0.01..800 degC x 0..100 MPa both classifiers answer "no region" *)
  Lemma regions_none t p :
    ~ (Q2R d001 <= t <= Q2R (800 # 1) /\ 0 <= p <= Q2R (100000000 # 1)) ->
    region67 t p = RNone /\ region97 t p = RNone.
  Proof.
    unfold region67, region97.
    open_run region67_traced. open_run region97_traced.
    ev_nodes region67_nodes. ev_nodes region97_nodes.
    unfold d001. replace (Q2R 0) with 0 by (unfold Q2R; cbn; lra).
    intros HN.
    split_cmps; try (split; reflexivity); exfalso; apply HN; lra.
  Qed.
End Regions.

(** non-vacuity: with concrete curves (constants here) the hypotheses hold at a liquid state and
    at a supercritical state, and the common answer is region 1 / region 3 *)
Example regions_agree_inhabited :
  let fn : fnR := fun _ _ _ => 1000000 in
  (20 <= Q2R (350 # 1) \/ Q2R Tc1_C_Q < 20) /\ away_from_curves fn fn 20 5000000 /\
  (400 <= Q2R (350 # 1) \/ Q2R Tc1_C_Q < 400) /\ away_from_curves fn fn 400 5000000.
Proof.
  unfold away_from_curves, Tc1_C_Q. q2r. repeat split; intros; try lra; right; lra.
Qed.
