(** C15 -- the separated steam fraction lies in [0, 1] and never decreases with enthalpy.

    [ssf1_traced] / [ssf2_traced] are t2thermo.separated_steam_fraction (one / two separator
    pressures) as symbolically executed from the current source, with tsat, cowat and supst
    abstract: the theorems hold for EVERY interpretation of the three routines, under the
    enthalpy orderings named in each statement (steam enthalpy above liquid enthalpy at each
    separator pressure; for two stages also second-stage steam above first-stage liquid). *)
From Coq Require Import ZArith QArith Qreals Reals List Bool Lra.
From P Require Import Expr Common.
From Gen Require Import GenThermo GenTraced.
Import ListNotations.
Close Scope Q_scope.
Open Scope R_scope.

Definition clamp01 (x : R) : R := Rmax (Rmin x 1) 0.

Lemma clamp01_range x : 0 <= clamp01 x <= 1.
Proof.
  unfold clamp01, Rmax, Rmin.
  destruct (Rle_dec x 1); destruct (Rle_dec _ 0); lra.
Qed.

Lemma clamp01_mono x y : x <= y -> clamp01 x <= clamp01 y.
Proof.
  intros H. unfold clamp01, Rmax, Rmin.
  destruct (Rle_dec x 1); destruct (Rle_dec y 1);
    repeat match goal with |- context [Rle_dec ?a 0] => destruct (Rle_dec a 0) end; lra.
Qed.

Lemma affine_mono a b x y : 0 <= a -> x <= y -> a * x + b <= a * y + b.
Proof. intros Ha H. apply Rplus_le_compat_r. apply Rmult_le_compat_l; assumption. Qed.

(** Python's max(min(f, 1.0), 0.0) as the traced comparisons decide it *)
Lemma clamp_by_tests (F : R) :
  (if Rlt_dec (Q2R 1) F then RRet [Q2R 1]
   else if Rlt_dec F (Q2R 0) then RRet [Q2R 0] else RRet [F]) = RRet [clamp01 F].
Proof.
  replace (Q2R 1) with 1 by (unfold Q2R; cbn; lra).
  replace (Q2R 0) with 0 by (unfold Q2R; cbn; lra).
  unfold clamp01, Rmax, Rmin.
  destruct (Rlt_dec 1 F); destruct (Rle_dec F 1); try lra.
  - destruct (Rle_dec 1 0); [lra|reflexivity].
  - destruct (Rlt_dec F 0); destruct (Rle_dec F 0); try lra; try reflexivity.
    assert (F = 0) by lra. subst F. reflexivity.
Qed.

Section Steam.
  Variables (fn : fnR) (coef : nat -> R).
  (** saturation temperature and the two saturated enthalpies at a separator pressure, as the
      code forms them: enth = u + p / d with (d, u) = cowat / supst (tsat p, p) *)
  Definition ts (p : R) : R := fn f_tsat 0%nat [p].
  Definition hl (p : R) : R := fn f_cowat 1%nat [ts p; p] + p / fn f_cowat 0%nat [ts p; p].
  Definition hs (p : R) : R := fn f_supst 1%nat [ts p; p] + p / fn f_supst 0%nat [ts p; p].

  Definition slope1 (p1 : R) : R := Q2R 1 / (hs p1 - hl p1).
  Definition frac1 (h p1 : R) : R := slope1 p1 * h + - hl p1 / (hs p1 - hl p1).
  Definition slope2 (p1 p2 : R) : R := (hs p2 - hl p1) / ((hs p1 - hl p1) * (hs p2 - hl p2)).
  Definition frac2 (h p1 p2 : R) : R :=
    slope2 p1 p2 * h + (hs p1 * (hl p1 - hl p2) - hl p1 * (hs p2 - hl p2)) / ((hs p1 - hl p1) * (hs p2 - hl p2)).

  (* the traced tests and the specification's tests are the same terms: one case split serves both *)
  Ltac to_spec ns :=
    unfold Rltb;
    repeat (match goal with |- context [Rlt_dec ?a ?b] => destruct (Rlt_dec a b) end; cbn [eqb andb p_out map]);
    lazy [evalR eval_nodes eval_node get nth map ns]; reflexivity.

  (** what the traced function computes: the clamped affine function of the enthalpy *)
  Lemma ssf1_value h p1 : runR ssf1_traced fn coef [h; p1] = RRet [clamp01 (frac1 h p1)].
  Proof.
    rewrite <- clamp_by_tests.
    unfold frac1, slope1, hl, hs, ts, f_tsat, f_cowat, f_supst.
    open_run ssf1_traced. ev_nodes ssf1_nodes.
    to_spec ssf1_nodes.
  Qed.

  Lemma ssf2_value h p1 p2 : runR ssf2_traced fn coef [h; p1; p2] = RRet [clamp01 (frac2 h p1 p2)].
  Proof.
    rewrite <- clamp_by_tests.
    unfold frac2, slope2, hl, hs, ts, f_tsat, f_cowat, f_supst.
    open_run ssf2_traced. ev_nodes ssf2_nodes.
    to_spec ssf2_nodes.
  Qed.

  Definition value_of (r : rres) : R := match r with RRet [x] => x | _ => 0 end.
  Definition ssf1 (h p1 : R) : R := value_of (runR ssf1_traced fn coef [h; p1]).
  Definition ssf2 (h p1 p2 : R) : R := value_of (runR ssf2_traced fn coef [h; p1; p2]).

  Lemma slope1_nonneg p1 : hl p1 < hs p1 -> 0 <= slope1 p1.
  Proof.
    intros H. unfold slope1. replace (Q2R 1) with 1 by (unfold Q2R; cbn; lra).
    apply Rlt_le. apply Rdiv_lt_0_compat; lra.
  Qed.

  Lemma slope2_nonneg p1 p2 : hl p1 < hs p1 -> hl p2 < hs p2 -> hl p1 <= hs p2 -> 0 <= slope2 p1 p2.
  Proof.
    intros H1 H2 H3. unfold slope2.
    assert (0 < (hs p1 - hl p1) * (hs p2 - hl p2)) by (apply Rmult_lt_0_compat; lra).
    unfold Rdiv. apply Rmult_le_pos; [lra|]. apply Rlt_le. apply Rinv_0_lt_compat. assumption.
  Qed.

  Theorem ssf1_range_mono h h' p1 :
    has_value (runR ssf1_traced fn coef [h; p1]) /\
    0 <= ssf1 h p1 <= 1 /\
    (hl p1 < hs p1 -> h <= h' -> ssf1 h p1 <= ssf1 h' p1).
  Proof.
    unfold ssf1. rewrite !ssf1_value. cbn [value_of]. split; [eexists; reflexivity|]. split; [apply clamp01_range|].
    intros H Hh. apply clamp01_mono. unfold frac1. apply affine_mono; [apply slope1_nonneg; exact H|exact Hh].
  Qed.

  Theorem ssf2_range_mono h h' p1 p2 :
    has_value (runR ssf2_traced fn coef [h; p1; p2]) /\
    0 <= ssf2 h p1 p2 <= 1 /\
    (hl p1 < hs p1 -> hl p2 < hs p2 -> hl p1 <= hs p2 -> h <= h' -> ssf2 h p1 p2 <= ssf2 h' p1 p2).
  Proof.
    unfold ssf2. rewrite !ssf2_value. cbn [value_of]. split; [eexists; reflexivity|]. split; [apply clamp01_range|].
    intros H1 H2 H3 Hh. apply clamp01_mono. unfold frac2. apply affine_mono; [apply slope2_nonneg; assumption|exact Hh].
  Qed.

  (** under the orderings the unclamped one-stage fraction is the lever rule (h - hl) / (hs - hl) *)
  Lemma frac1_lever h p1 : hl p1 < hs p1 -> frac1 h p1 = (h - hl p1) / (hs p1 - hl p1).
  Proof.
    intros H. unfold frac1, slope1. replace (Q2R 1) with 1 by (unfold Q2R; cbn; lra). field. lra.
  Qed.
End Steam.

(** the orderings are satisfiable: liquid 1000 kg/m3, 4e5 J/kg; steam 5 kg/m3, 2.5e6 J/kg *)
Example ssf_orderings_inhabited :
  let fn : fnR := fun fid out _ => if Nat.eqb fid f_cowat then (if Nat.eqb out 0 then 1000 else 400000)
                                   else (if Nat.eqb out 0 then 5 else 2500000) in
  hl fn 100000 < hs fn 100000 /\ hl fn 100000 <= hs fn 500000.
Proof. unfold hl, hs, ts, f_cowat, f_supst, f_tsat. cbn [Nat.eqb]. split; lra. Qed.
