(** C15 -- property theorems (region classifiers; steam fraction).  Each is closed by [exact] of a lemma proved in the other
    files of coq/C15 and followed by Print Assumptions.
    [runR f_traced fn coef args]: the function as symbolically executed from the current
    t2thermo.py / IAPWS97.py (Gen/GenTraced.v), over the reals, with the functions it calls
    inside range tests (sat, b23p), scipy's fsolve (solve) and, for the steam fraction, tsat /
    cowat / supst interpreted by an arbitrary function family [fn]. *)
From Coq Require Import ZArith QArith Qreals Reals List Bool.
From Gen Require Import GenThermo GenTraced.
From P Require Import Expr Common Regions Guard97.
Import ListNotations.
Close Scope Q_scope.
Open Scope R_scope.

(** ** the two region classifiers *)
Theorem regions_agree : forall (fn67 fn97 : fnR) (coef67 coef97 : nat -> R) (t p : R),
  t <= Q2R (350 # 1) \/ Q2R Tc1_C_Q < t -> away_from_curves fn67 fn97 t p ->
  region67 fn67 coef67 t p = region97 fn97 coef97 t p.
Proof. exact regions_agree_proof. Qed.
Print Assumptions regions_agree.

Theorem regions_out_of_bounds : forall (fn67 fn97 : fnR) (coef67 coef97 : nat -> R) (t p : R),
  ~ (Q2R d001 <= t <= Q2R (800 # 1) /\ 0 <= p <= Q2R (100000000 # 1)) ->
  region67 fn67 coef67 t p = RNone /\ region97 fn97 coef97 t p = RNone.
Proof. exact regions_none. Qed.
Print Assumptions regions_out_of_bounds.


(** ** the IAPWS-97 side answers on the whole common range, limits included (exactly 100 MPa,
       exactly 350 degC): otherwise the agreement clause has nothing to compare with there *)
Theorem iapws97_cowat_defined_on_common_range : forall (fn : fnR) (coef : nat -> R) (t p : R),
  t <= Q2R (350 # 1) -> p <= Q2R (100000000 # 1) -> has_value (runR cowat97_traced fn coef [t; p]).
Proof. exact cowat97_defined. Qed.
Print Assumptions iapws97_cowat_defined_on_common_range.

Theorem iapws97_supst_defined_on_common_range : forall (fn : fnR) (coef : nat -> R) (t p : R),
  t <= Q2R (1000 # 1) -> p <= Q2R (100000000 # 1) -> has_value (runR supst97_traced fn coef [t; p]).
Proof. exact supst97_defined. Qed.
Print Assumptions iapws97_supst_defined_on_common_range.

Theorem iapws97_sat_defined_on_common_range : forall (fn : fnR) (coef : nat -> R) (t : R),
  0 <= t <= Q2R i97_tcritical_Q -> has_value (runR sat97_traced fn coef [t]).
Proof. exact sat97_defined. Qed.
Print Assumptions iapws97_sat_defined_on_common_range.
