(** C15 (thorough tier only) -- internal energy, IFC-67 against IAPWS-97 on one tile, by interval arithmetic. *)
Set Warnings "-ambiguous-paths,-notation-overridden".
From Coq Require Import ZArith QArith Qreals Reals List Bool Lra.
From Interval Require Import Tactic.
From P Require Import Expr Common SatFacts AgreeDefs.
From Gen Require Import GenThermo GenTraced.
Import ListNotations.
Close Scope Q_scope.
Open Scope R_scope.

Lemma E8 t p : 1 / 100 <= t <= 10 -> 12400 <= p <= 100000000 -> du_liq t p <= 7000.
Proof. intros Ht Hp. unfold du_liq. expose_uliq. interval with (i_taylor t, i_bisect p, i_depth 12, i_degree 8). Qed.
