(** C15 -- property theorems of the thorough tier: partial agreement of the densities (Agree.v). *)
Set Warnings "-ambiguous-paths,-notation-overridden".
From Coq Require Import ZArith QArith Qreals Reals List Bool.
From Gen Require Import GenThermo GenTraced.
From P Require Import Expr Common SatFacts AgreeDefs Agree.
Import ListNotations.
Close Scope Q_scope.
Open Scope R_scope.

(** PARTIAL (stated sub-range only, see Agree.v): |rho67 - rho97| / rho97 <= 0.5 % for liquid water *)
Theorem ifc67_vs_iapws97_liquid_density_partial : forall t p : R, liquid_region t p -> rel_liq t p <= 5 / 1000.
Proof. exact liquid_density_agrees_on_region. Qed.
Print Assumptions ifc67_vs_iapws97_liquid_density_partial.

(** PARTIAL (stated sub-range only): |rho67 - rho97| / rho97 <= 1 % for steam *)
Theorem ifc67_vs_iapws97_steam_density_partial : forall t p : R, steam_region t p -> rel_stm t p <= 1 / 100.
Proof. exact steam_density_agrees_on_region. Qed.
Print Assumptions ifc67_vs_iapws97_steam_density_partial.

(** PARTIAL: |u67 - u97| / u97 <= 0.6 % for steam on 650..800 degC x 5..10 MPa *)
Theorem ifc67_vs_iapws97_steam_energy_partial : forall t p : R, steam_energy_region t p -> relu_stm t p <= 6 / 1000.
Proof. exact steam_energy_agrees_on_region. Qed.
Print Assumptions ifc67_vs_iapws97_steam_energy_partial.

(** PARTIAL: |u67 - u97| <= 7 kJ/kg for liquid water on 0.01..10 degC x 12.4 kPa..100 MPa *)
Theorem ifc67_vs_iapws97_liquid_energy_partial : forall t p : R, liquid_energy_region t p -> du_liq t p <= 7000.
Proof. exact liquid_energy_agrees_on_region. Qed.
Print Assumptions ifc67_vs_iapws97_liquid_energy_partial.
