(** C15 (thorough tier only) -- steam density, IFC-67 against IAPWS-97 on tiles, by interval arithmetic. *)
Set Warnings "-ambiguous-paths,-notation-overridden".
From Coq Require Import ZArith QArith Qreals Reals List Bool Lra.
From Interval Require Import Tactic.
From P Require Import Expr Common SatFacts AgreeDefs.
From Gen Require Import GenThermo GenTraced.
Import ListNotations.
Close Scope Q_scope.
Open Scope R_scope.

Lemma S11 t p : 200 <= t <= 250 -> 100000 <= p <= 1000000 -> rel_stm t p <= 1 / 100.
Proof. intros Ht Hp. unfold rel_stm. expose_stm. interval with (i_taylor t, i_bisect p, i_depth 14, i_degree 5). Qed.

Lemma S41 t p : 500 <= t <= 550 -> 100000 <= p <= 1000000 -> rel_stm t p <= 1 / 100.
Proof. intros Ht Hp. unfold rel_stm. expose_stm. interval with (i_taylor t, i_bisect p, i_depth 14, i_degree 5). Qed.

Lemma S58 t p : 650 <= t <= 700 -> 10000000 <= p <= 20000000 -> rel_stm t p <= 1 / 100.
Proof. intros Ht Hp. unfold rel_stm. expose_stm. interval with (i_bisect t, i_bisect p, i_depth 14). Qed.

