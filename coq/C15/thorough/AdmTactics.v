(** C15 (thorough tier only) -- tactics for Adm*.v.  The hypothesis
    [admissible] of the single-potential theorems is satisfiable: it holds for the coefficient
    values of the current source at a liquid state (cowat: theta = 0.6, beta = 0.05, i.e.
    115.23 degC, 1.106 MPa) and at a steam state (supst: theta = 0.9, beta = 0.05, i.e.
    309.42 degC, 1.106 MPa).  Every divisor, every argument of sqrt and of **, every atom is
    evaluated by interval arithmetic on the real-number reading of the traced DAG. *)
Set Warnings "-ambiguous-paths,-notation-overridden".
From Coq Require Import ZArith QArith Qreals Reals List Bool Lia Lra.
From Coquelicot Require Import Coquelicot.
From Interval Require Import Tactic.
From P Require Import Expr Laurent Expand Jet PolyJet Potential Potential67.
From Gen Require Import GenThermo GenTraced.
Import ListNotations.
Close Scope Q_scope.
Open Scope R_scope.

Ltac nz := first [ apply Rgt_not_eq; interval | apply Rlt_not_eq; interval ].
Ltac numerals := unfold Q2R; cbn [Qnum Qden].

(* the valuation of atom i, in stages: which node / definition it is, the definition's polynomial
   (vm_compute on the closed polynomial), then the node values as real expressions *)
Ltac rho_index nodes :=
  lazy [rho rho_base CW.tb CW.tvb CW.vb CW.cb ST.tb ST.tvb ST.vb ST.cb cowat_off_ncuts supst_off_ncuts
        Nat.ltb Nat.leb Nat.add Nat.sub Nat.eqb andb nth lookup find tnodes cnodes CW.ns ST.ns fixpow map nodes length fst snd
        CW.st0 ST.st0 CW.aA CW.aBq CW.aDd ST.aS1 ST.aS2 ST.aS3].
Ltac rho_poly :=
  repeat match goal with
  | |- context [dpoly ?r (pden ?n ?e)] =>
      let p := eval vm_compute in (pden n e) in
      change (pden n e) with p;
      lazy [dpoly dmono powerRZ pow fst snd Nat.add Pos.to_nat Pos.iter_op]
  end.
Ltac rho_nodes nodes coefs :=
  lazy [envR evalR eval_nodes eval_node get nth CW.ns ST.ns fixpow map nodes vars coefQ coefs
        cowat_a_Q cowat_sa_Q supst_b_Q supst_sb_Q app Tc1_Q tc_k_Q Pc1_Q];
  numerals.
Ltac rho_nz nodes coefs := rho_index nodes; rho_poly; rho_index nodes; rho_nodes nodes coefs; first [lra | nz].

