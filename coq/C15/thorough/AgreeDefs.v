(** C15 (thorough tier only) -- the densities the two formulations compute, as real functions read
    off the traced DAGs (value-returning path; coefficients = the regenerated tables), and the
    tactics that expose them to coq-interval. *)
Set Warnings "-ambiguous-paths,-notation-overridden".
From Coq Require Import ZArith QArith Qreals Reals List Bool Lra.
From Interval Require Import Tactic.
From P Require Import Expr Common SatFacts.
From Gen Require Import GenThermo GenTraced.
Import ListNotations.
Close Scope Q_scope.
Open Scope R_scope.

Definition rho67_liq (t p : R) : R := nth (out_pos cowat_off_traced 0) (evalR fn0 (fun i => nth i [t; p] 0) (coefQ cowat_off_coefs_Q) cowat_off_nodes) 0.
Definition rho97_liq (t p : R) : R := nth (out_pos cowat97_traced 0) (evalR fn0 (fun i => nth i [t; p] 0) (coefQ cowat97_coefs_Q) cowat97_nodes) 0.
Definition rho67_stm (t p : R) : R := nth (out_pos supst_off_traced 0) (evalR fn0 (fun i => nth i [t; p] 0) (coefQ supst_off_coefs_Q) supst_off_nodes) 0.
Definition rho97_stm (t p : R) : R := nth (out_pos supst97_traced 0) (evalR fn0 (fun i => nth i [t; p] 0) (coefQ supst97_coefs_Q) supst97_nodes) 0.

Ltac expose_liq :=
  unfold rho67_liq, rho97_liq;
  lazy [out_pos cowat_off_traced cowat97_traced t_paths p_out nth];
  lazy [evalR eval_nodes eval_node get nth map cowat_off_nodes cowat97_nodes coefQ cowat_off_coefs_Q cowat97_coefs_Q
        cowat_a_Q cowat_sa_Q i97_nr1_Q app];
  unfold Q2R; cbn [Qnum Qden].
Ltac expose_stm :=
  unfold rho67_stm, rho97_stm;
  lazy [out_pos supst_off_traced supst97_traced t_paths p_out nth];
  lazy [evalR eval_nodes eval_node get nth map supst_off_nodes supst97_nodes coefQ supst_off_coefs_Q supst97_coefs_Q
        supst_b_Q supst_sb_Q i97_n0r2_Q i97_nr2_Q app];
  unfold Q2R; cbn [Qnum Qden].

(** relative difference of the two densities *)
Definition rel_liq (t p : R) : R := Rabs ((rho67_liq t p - rho97_liq t p) / rho97_liq t p).
Definition rel_stm (t p : R) : R := Rabs ((rho67_stm t p - rho97_stm t p) / rho97_stm t p).

(** internal energies *)
Definition u67_liq (t p : R) : R := nth (out_pos cowat_off_traced 1) (evalR fn0 (fun i => nth i [t; p] 0) (coefQ cowat_off_coefs_Q) cowat_off_nodes) 0.
Definition u97_liq (t p : R) : R := nth (out_pos cowat97_traced 1) (evalR fn0 (fun i => nth i [t; p] 0) (coefQ cowat97_coefs_Q) cowat97_nodes) 0.
Definition u67_stm (t p : R) : R := nth (out_pos supst_off_traced 1) (evalR fn0 (fun i => nth i [t; p] 0) (coefQ supst_off_coefs_Q) supst_off_nodes) 0.
Definition u97_stm (t p : R) : R := nth (out_pos supst97_traced 1) (evalR fn0 (fun i => nth i [t; p] 0) (coefQ supst97_coefs_Q) supst97_nodes) 0.
Ltac expose_uliq :=
  unfold u67_liq, u97_liq;
  lazy [out_pos cowat_off_traced cowat97_traced t_paths p_out nth];
  lazy [evalR eval_nodes eval_node get nth map cowat_off_nodes cowat97_nodes coefQ cowat_off_coefs_Q cowat97_coefs_Q
        cowat_a_Q cowat_sa_Q i97_nr1_Q app];
  unfold Q2R; cbn [Qnum Qden].
Ltac expose_ustm :=
  unfold u67_stm, u97_stm;
  lazy [out_pos supst_off_traced supst97_traced t_paths p_out nth];
  lazy [evalR eval_nodes eval_node get nth map supst_off_nodes supst97_nodes coefQ supst_off_coefs_Q supst97_coefs_Q
        supst_b_Q supst_sb_Q i97_n0r2_Q i97_nr2_Q app];
  unfold Q2R; cbn [Qnum Qden].
(** liquid: absolute difference (the energy passes through zero near 0 degC); steam: relative *)
Definition du_liq (t p : R) : R := Rabs (u67_liq t p - u97_liq t p).
Definition relu_stm (t p : R) : R := Rabs ((u67_stm t p - u97_stm t p) / u97_stm t p).
