(** C15 (thorough tier only) -- liq density, IFC-67 against IAPWS-97 on tiles, by interval arithmetic. *)
Set Warnings "-ambiguous-paths,-notation-overridden".
From Coq Require Import ZArith QArith Qreals Reals List Bool Lra.
From Interval Require Import Tactic.
From P Require Import Expr Common SatFacts AgreeDefs.
From Gen Require Import GenThermo GenTraced.
Import ListNotations.
Close Scope Q_scope.
Open Scope R_scope.

Lemma L3 t p : 50 <= t <= 100 -> 102000 <= p <= 10000000 -> rel_liq t p <= 5 / 1000.
Proof. intros Ht Hp. unfold rel_liq. expose_liq. interval with (i_bisect t, i_bisect p, i_depth 18). Qed.

Lemma L11 t p : 150 <= t <= 200 -> 50000000 <= p <= 100000000 -> rel_liq t p <= 5 / 1000.
Proof. intros Ht Hp. unfold rel_liq. expose_liq. interval with (i_bisect t, i_bisect p, i_depth 18). Qed.

Lemma L19 t p : 260 <= t <= 270 -> 20000000 <= p <= 30000000 -> rel_liq t p <= 5 / 1000.
Proof. intros Ht Hp. unfold rel_liq. expose_liq. interval with (i_bisect t, i_bisect p, i_depth 18). Qed.

Lemma L27 t p : 290 <= t <= 300 -> 30000000 <= p <= 50000000 -> rel_liq t p <= 5 / 1000.
Proof. intros Ht Hp. unfold rel_liq. expose_liq. interval with (i_bisect t, i_bisect p, i_depth 18). Qed.

Lemma L35 t p : 300 <= t <= 350 -> 50000000 <= p <= 100000000 -> rel_liq t p <= 5 / 1000.
Proof. intros Ht Hp. unfold rel_liq. expose_liq. interval with (i_bisect t, i_bisect p, i_depth 18). Qed.

