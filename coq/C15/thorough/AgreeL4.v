(** C15 (thorough tier only) -- liq density, IFC-67 against IAPWS-97 on tiles, by interval arithmetic. *)
Set Warnings "-ambiguous-paths,-notation-overridden".
From Coq Require Import ZArith QArith Qreals Reals List Bool Lra.
From Interval Require Import Tactic.
From P Require Import Expr Common SatFacts AgreeDefs.
From Gen Require Import GenThermo GenTraced.
Import ListNotations.
Close Scope Q_scope.
Open Scope R_scope.

Lemma L4 t p : 50 <= t <= 100 -> 10000000 <= p <= 50000000 -> rel_liq t p <= 5 / 1000.
Proof. intros Ht Hp. unfold rel_liq. expose_liq. interval with (i_bisect t, i_bisect p, i_depth 18). Qed.

Lemma L12 t p : 200 <= t <= 250 -> 3980000 <= p <= 10000000 -> rel_liq t p <= 5 / 1000.
Proof. intros Ht Hp. unfold rel_liq. expose_liq. interval with (i_bisect t, i_bisect p, i_depth 18). Qed.

Lemma L20 t p : 260 <= t <= 270 -> 30000000 <= p <= 50000000 -> rel_liq t p <= 5 / 1000.
Proof. intros Ht Hp. unfold rel_liq. expose_liq. interval with (i_bisect t, i_bisect p, i_depth 18). Qed.

Lemma L28 t p : 300 <= t <= 310 -> 20000000 <= p <= 30000000 -> rel_liq t p <= 5 / 1000.
Proof. intros Ht Hp. unfold rel_liq. expose_liq. interval with (i_bisect t, i_bisect p, i_depth 18). Qed.

