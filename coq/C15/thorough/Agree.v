(** C15 (thorough tier only) -- IFC-67 and IAPWS-97 densities agree on a stated sub-range of the
    common range (PARTIAL: what coq-interval closes on a coarse tiling within the thorough budget).
    Liquid (cowat): relative difference <= 0.5 %% (measured maximum 0.23 %%) on the staircase region
    [liquid_region]: every temperature 0.01 .. 350 degC, pressures from the listed lower limit (just
    above the saturation pressure up to 280 degC; 20 / 30 / 40 MPa above) to 100 MPa.
    Steam (supst): relative difference <= 1 %% (measured maximum 0.47 %%) on [steam_region]:
    550 .. 800 degC, 5 .. 10 MPa and 650 .. 800 degC, 10 .. 20 MPa.  Outside these regions the
    enclosures do not close at this tile size (liquid near saturation above 280 degC needs tiles of
    0.1 K x 10 kPa, 2 min each; steam needs at most one octave of pressure per tile: about 270
    tiles of 40-80 s) and the clause is covered by the sampled oracle only. *)
Set Warnings "-ambiguous-paths,-notation-overridden".
From Coq Require Import ZArith QArith Qreals Reals List Bool Lra.
From Interval Require Import Tactic.
From P Require Import Expr Common SatFacts AgreeDefs AgreeL0 AgreeL1 AgreeL2 AgreeL3 AgreeL4 AgreeL5 AgreeL6 AgreeL7 AgreeS0 AgreeS1 AgreeS2 AgreeS3.
From Gen Require Import GenThermo GenTraced.
Import ListNotations.
Close Scope Q_scope.
Open Scope R_scope.

Definition liquid_region (t p : R) : Prop :=
  (1 / 100 <= t <= 50 /\ 12400 <= p <= 100000000) \/
  (50 <= t <= 100 /\ 102000 <= p <= 100000000) \/
  (100 <= t <= 150 /\ 477000 <= p <= 100000000) \/
  (150 <= t <= 200 /\ 1560000 <= p <= 100000000) \/
  (200 <= t <= 250 /\ 3980000 <= p <= 100000000) \/
  (250 <= t <= 260 /\ 4700000 <= p <= 100000000) \/
  (260 <= t <= 270 /\ 5510000 <= p <= 100000000) \/
  (270 <= t <= 280 /\ 6430000 <= p <= 100000000) \/
  (280 <= t <= 290 /\ 20000000 <= p <= 100000000) \/
  (290 <= t <= 300 /\ 20000000 <= p <= 100000000) \/
  (300 <= t <= 310 /\ 20000000 <= p <= 100000000) \/
  (310 <= t <= 320 /\ 30000000 <= p <= 100000000) \/
  (320 <= t <= 330 /\ 40000000 <= p <= 100000000) \/
  (330 <= t <= 340 /\ 40000000 <= p <= 100000000) \/
  (340 <= t <= 350 /\ 40000000 <= p <= 100000000).

Definition steam_region (t p : R) : Prop :=
  (550 <= t <= 590 /\ 5000000 <= p <= 10000000) \/
  (590 <= t <= 650 /\ 5000000 <= p <= 10000000) \/
  (650 <= t <= 700 /\ 5000000 <= p <= 20000000) \/
  (700 <= t <= 750 /\ 5000000 <= p <= 20000000) \/
  (750 <= t <= 800 /\ 5000000 <= p <= 20000000).

Theorem liquid_density_agrees_on_region t p : liquid_region t p -> rel_liq t p <= 5 / 1000.
Proof.
  unfold liquid_region. intros H.
  repeat match type of H with _ \/ _ => destruct H as [H|H] end; destruct H as [Ht Hp].
  - destruct (Rle_dec p 10000000); [apply (L0 t p); lra|destruct (Rle_dec p 50000000); [apply (L1 t p); lra|apply (L2 t p); lra]].
  - destruct (Rle_dec p 10000000); [apply (L3 t p); lra|destruct (Rle_dec p 50000000); [apply (L4 t p); lra|apply (L5 t p); lra]].
  - destruct (Rle_dec p 10000000); [apply (L6 t p); lra|destruct (Rle_dec p 50000000); [apply (L7 t p); lra|apply (L8 t p); lra]].
  - destruct (Rle_dec p 10000000); [apply (L9 t p); lra|destruct (Rle_dec p 50000000); [apply (L10 t p); lra|apply (L11 t p); lra]].
  - destruct (Rle_dec p 10000000); [apply (L12 t p); lra|destruct (Rle_dec p 50000000); [apply (L13 t p); lra|apply (L14 t p); lra]].
  - destruct (Rle_dec p 20000000); [apply (L15 t p); lra|destruct (Rle_dec p 30000000); [apply (L16 t p); lra|destruct (Rle_dec p 50000000); [apply (L17 t p); lra|apply (L34 t p); lra]]].
  - destruct (Rle_dec p 20000000); [apply (L18 t p); lra|destruct (Rle_dec p 30000000); [apply (L19 t p); lra|destruct (Rle_dec p 50000000); [apply (L20 t p); lra|apply (L34 t p); lra]]].
  - destruct (Rle_dec p 20000000); [apply (L21 t p); lra|destruct (Rle_dec p 30000000); [apply (L22 t p); lra|destruct (Rle_dec p 50000000); [apply (L23 t p); lra|apply (L34 t p); lra]]].
  - destruct (Rle_dec p 30000000); [apply (L24 t p); lra|destruct (Rle_dec p 50000000); [apply (L25 t p); lra|apply (L34 t p); lra]].
  - destruct (Rle_dec p 30000000); [apply (L26 t p); lra|destruct (Rle_dec p 50000000); [apply (L27 t p); lra|apply (L34 t p); lra]].
  - destruct (Rle_dec p 30000000); [apply (L28 t p); lra|destruct (Rle_dec p 50000000); [apply (L29 t p); lra|apply (L35 t p); lra]].
  - destruct (Rle_dec p 50000000); [apply (L30 t p); lra|apply (L35 t p); lra].
  - destruct (Rle_dec p 50000000); [apply (L31 t p); lra|apply (L35 t p); lra].
  - destruct (Rle_dec p 50000000); [apply (L32 t p); lra|apply (L35 t p); lra].
  - destruct (Rle_dec p 50000000); [apply (L33 t p); lra|apply (L35 t p); lra].
Qed.

Theorem steam_density_agrees_on_region t p : steam_region t p -> rel_stm t p <= 1 / 100.
Proof.
  unfold steam_region. intros H.
  repeat match type of H with _ \/ _ => destruct H as [H|H] end; destruct H as [Ht Hp].
  - apply (S0 t p); lra.
  - apply (S1 t p); lra.
  - destruct (Rle_dec p 10000000); [apply (S2 t p); lra|apply (S3 t p); lra].
  - destruct (Rle_dec p 10000000); [apply (S4 t p); lra|apply (S5 t p); lra].
  - destruct (Rle_dec p 10000000); [apply (S6 t p); lra|apply (S7 t p); lra].
Qed.

