(** C15 (thorough tier only) -- IFC-67 and IAPWS-97 agree on stated sub-ranges of the common range
    (PARTIAL: what coq-interval closes on a coarse tiling within the thorough budget).
    Liquid density (cowat): relative difference <= 0.5 % (measured maximum 0.23 %) on [liquid_region]:
      every temperature 0.01 .. 350 degC, pressures from the listed lower limit (just above the
      saturation pressure up to 280 degC; 20 / 30 / 40 MPa above) to 100 MPa.
    Steam density (supst): relative difference <= 1 % (measured maximum 0.47 %) on [steam_region]:
      100 .. 800 degC, from 100 kPa up to just below the saturation pressure of the interval's lower
      temperature (below 350 degC), up to 10 MPa (350 .. 650 degC), up to 20 MPa (650 .. 800 degC).
    Steam internal energy: relative difference <= 0.6 % (measured 0.28 %) on [steam_energy_region]:
      650 .. 800 degC x 5 .. 10 MPa (the tiles 550 .. 650 degC x 5 .. 10 MPa and 650 .. 800 degC x
      10 .. 20 MPa do not close with a degree-5 Taylor model in t: 10 min each, failed).
    Liquid internal energy: absolute difference <= 7 kJ/kg (measured 3.6) on [liquid_energy_region]:
      0.01 .. 10 degC x 12.4 kPa .. 100 MPa.
    Outside these regions the enclosures do not close at an acceptable tile size (see reports/C15.md
    for the measured costs) and the clauses are covered by the sampled oracle only. *)
Set Warnings "-ambiguous-paths,-notation-overridden".
From Coq Require Import ZArith QArith Qreals Reals List Bool Lra.
From Interval Require Import Tactic.
From P Require Import Expr Common SatFacts AgreeDefs AgreeL0 AgreeL1 AgreeL2 AgreeL3 AgreeL4 AgreeL5 AgreeL6 AgreeL7 AgreeS0 AgreeS1 AgreeS2 AgreeS3 AgreeS4 AgreeS5 AgreeS6 AgreeS7 AgreeS8 AgreeS9 AgreeS10 AgreeS11 AgreeE2 AgreeE3 AgreeE4 AgreeE8.
From Gen Require Import GenThermo GenTraced.
Import ListNotations.
Close Scope Q_scope.
Open Scope R_scope.

Definition liquid_region (t p : R) : Prop :=
  (1 / 100 <= t <= 50 /\ 12400 <= p <= 100000000) \/
  (50 <= t <= 100 /\ 102000 <= p <= 100000000) \/
  (100 <= t <= 150 /\ 477000 <= p <= 100000000) \/
  (150 <= t <= 200 /\ 1560000 <= p <= 100000000) \/
  (200 <= t <= 250 /\ 3980000 <= p <= 100000000) \/
  (250 <= t <= 260 /\ 4700000 <= p <= 100000000) \/
  (260 <= t <= 270 /\ 5510000 <= p <= 100000000) \/
  (270 <= t <= 280 /\ 6430000 <= p <= 100000000) \/
  (280 <= t <= 290 /\ 20000000 <= p <= 100000000) \/
  (290 <= t <= 300 /\ 20000000 <= p <= 100000000) \/
  (300 <= t <= 310 /\ 20000000 <= p <= 100000000) \/
  (310 <= t <= 320 /\ 30000000 <= p <= 100000000) \/
  (320 <= t <= 330 /\ 40000000 <= p <= 100000000) \/
  (330 <= t <= 340 /\ 40000000 <= p <= 100000000) \/
  (340 <= t <= 350 /\ 40000000 <= p <= 100000000).

Definition steam_region (t p : R) : Prop :=
  (100 <= t <= 150 /\ 100000 <= p <= 101000) \/
  (150 <= t <= 200 /\ 100000 <= p <= 475000) \/
  (200 <= t <= 250 /\ 100000 <= p <= 1550000) \/
  (250 <= t <= 300 /\ 100000 <= p <= 3970000) \/
  (300 <= t <= 350 /\ 100000 <= p <= 8580000) \/
  (350 <= t <= 400 /\ 100000 <= p <= 10000000) \/
  (400 <= t <= 450 /\ 100000 <= p <= 10000000) \/
  (450 <= t <= 500 /\ 100000 <= p <= 10000000) \/
  (500 <= t <= 550 /\ 100000 <= p <= 10000000) \/
  (550 <= t <= 590 /\ 100000 <= p <= 10000000) \/
  (590 <= t <= 650 /\ 100000 <= p <= 10000000) \/
  (650 <= t <= 700 /\ 100000 <= p <= 20000000) \/
  (700 <= t <= 750 /\ 100000 <= p <= 20000000) \/
  (750 <= t <= 800 /\ 100000 <= p <= 20000000).

Definition steam_energy_region (t p : R) : Prop :=
  (650 <= t <= 700 /\ 5000000 <= p <= 10000000) \/
  (700 <= t <= 750 /\ 5000000 <= p <= 10000000) \/
  (750 <= t <= 800 /\ 5000000 <= p <= 10000000).

Definition liquid_energy_region (t p : R) : Prop := 1 / 100 <= t <= 10 /\ 12400 <= p <= 100000000.

Theorem liquid_density_agrees_on_region t p : liquid_region t p -> rel_liq t p <= 5 / 1000.
Proof.
  unfold liquid_region. intros H.
  repeat match type of H with _ \/ _ => destruct H as [H|H] end; destruct H as [Ht Hp].
  - destruct (Rle_dec p 10000000); [apply (L0 t p); lra|destruct (Rle_dec p 50000000); [apply (L1 t p); lra|apply (L2 t p); lra]].
  - destruct (Rle_dec p 10000000); [apply (L3 t p); lra|destruct (Rle_dec p 50000000); [apply (L4 t p); lra|apply (L5 t p); lra]].
  - destruct (Rle_dec p 10000000); [apply (L6 t p); lra|destruct (Rle_dec p 50000000); [apply (L7 t p); lra|apply (L8 t p); lra]].
  - destruct (Rle_dec p 10000000); [apply (L9 t p); lra|destruct (Rle_dec p 50000000); [apply (L10 t p); lra|apply (L11 t p); lra]].
  - destruct (Rle_dec p 10000000); [apply (L12 t p); lra|destruct (Rle_dec p 50000000); [apply (L13 t p); lra|apply (L14 t p); lra]].
  - destruct (Rle_dec p 20000000); [apply (L15 t p); lra|destruct (Rle_dec p 30000000); [apply (L16 t p); lra|destruct (Rle_dec p 50000000); [apply (L17 t p); lra|apply (L34 t p); lra]]].
  - destruct (Rle_dec p 20000000); [apply (L18 t p); lra|destruct (Rle_dec p 30000000); [apply (L19 t p); lra|destruct (Rle_dec p 50000000); [apply (L20 t p); lra|apply (L34 t p); lra]]].
  - destruct (Rle_dec p 20000000); [apply (L21 t p); lra|destruct (Rle_dec p 30000000); [apply (L22 t p); lra|destruct (Rle_dec p 50000000); [apply (L23 t p); lra|apply (L34 t p); lra]]].
  - destruct (Rle_dec p 30000000); [apply (L24 t p); lra|destruct (Rle_dec p 50000000); [apply (L25 t p); lra|apply (L34 t p); lra]].
  - destruct (Rle_dec p 30000000); [apply (L26 t p); lra|destruct (Rle_dec p 50000000); [apply (L27 t p); lra|apply (L34 t p); lra]].
  - destruct (Rle_dec p 30000000); [apply (L28 t p); lra|destruct (Rle_dec p 50000000); [apply (L29 t p); lra|apply (L35 t p); lra]].
  - destruct (Rle_dec p 50000000); [apply (L30 t p); lra|apply (L35 t p); lra].
  - destruct (Rle_dec p 50000000); [apply (L31 t p); lra|apply (L35 t p); lra].
  - destruct (Rle_dec p 50000000); [apply (L32 t p); lra|apply (L35 t p); lra].
  - destruct (Rle_dec p 50000000); [apply (L33 t p); lra|apply (L35 t p); lra].
Qed.

Theorem steam_density_agrees_on_region t p : steam_region t p -> rel_stm t p <= 1 / 100.
Proof.
  unfold steam_region. intros H.
  repeat match type of H with _ \/ _ => destruct H as [H|H] end; destruct H as [Ht Hp].
  - apply (S3 t p); lra.
  - apply (S7 t p); lra.
  - destruct (Rle_dec p 1000000); [apply (S11 t p); lra|apply (S12 t p); lra].
  - destruct (Rle_dec p 1000000); [apply (S16 t p); lra|apply (S17 t p); lra].
  - destruct (Rle_dec p 1000000); [apply (S21 t p); lra|apply (S22 t p); lra].
  - destruct (Rle_dec p 1000000); [apply (S26 t p); lra|apply (S27 t p); lra].
  - destruct (Rle_dec p 1000000); [apply (S31 t p); lra|apply (S32 t p); lra].
  - destruct (Rle_dec p 1000000); [apply (S36 t p); lra|apply (S37 t p); lra].
  - destruct (Rle_dec p 1000000); [apply (S41 t p); lra|apply (S42 t p); lra].
  - destruct (Rle_dec p 1000000); [apply (S46 t p); lra|apply (S47 t p); lra].
  - destruct (Rle_dec p 1000000); [apply (S51 t p); lra|apply (S52 t p); lra].
  - destruct (Rle_dec p 1000000); [apply (S56 t p); lra|destruct (Rle_dec p 10000000); [apply (S57 t p); lra|apply (S58 t p); lra]].
  - destruct (Rle_dec p 1000000); [apply (S62 t p); lra|destruct (Rle_dec p 10000000); [apply (S63 t p); lra|apply (S64 t p); lra]].
  - destruct (Rle_dec p 1000000); [apply (S68 t p); lra|destruct (Rle_dec p 10000000); [apply (S69 t p); lra|apply (S70 t p); lra]].
Qed.

Theorem steam_energy_agrees_on_region t p : steam_energy_region t p -> relu_stm t p <= 6 / 1000.
Proof.
  unfold steam_energy_region. intros H.
  repeat match type of H with _ \/ _ => destruct H as [H|H] end; destruct H as [Ht Hp].
  - apply (E2 t p); lra.
  - apply (E3 t p); lra.
  - apply (E4 t p); lra.
Qed.

Theorem liquid_energy_agrees_on_region t p : liquid_energy_region t p -> du_liq t p <= 7000.
Proof. unfold liquid_energy_region. intros [Ht Hp]. apply (E8 t p); lra. Qed.
