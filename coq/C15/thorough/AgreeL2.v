(** C15 (thorough tier only) -- liq density, IFC-67 against IAPWS-97 on tiles, by interval arithmetic. *)
Set Warnings "-ambiguous-paths,-notation-overridden".
From Coq Require Import ZArith QArith Qreals Reals List Bool Lra.
From Interval Require Import Tactic.
From P Require Import Expr Common SatFacts AgreeDefs.
From Gen Require Import GenThermo GenTraced.
Import ListNotations.
Close Scope Q_scope.
Open Scope R_scope.

Lemma L2 t p : 1 / 100 <= t <= 50 -> 50000000 <= p <= 100000000 -> rel_liq t p <= 5 / 1000.
Proof. intros Ht Hp. unfold rel_liq. expose_liq. interval with (i_bisect t, i_bisect p, i_depth 18). Qed.

Lemma L10 t p : 150 <= t <= 200 -> 10000000 <= p <= 50000000 -> rel_liq t p <= 5 / 1000.
Proof. intros Ht Hp. unfold rel_liq. expose_liq. interval with (i_bisect t, i_bisect p, i_depth 18). Qed.

Lemma L18 t p : 260 <= t <= 270 -> 5510000 <= p <= 20000000 -> rel_liq t p <= 5 / 1000.
Proof. intros Ht Hp. unfold rel_liq. expose_liq. interval with (i_bisect t, i_bisect p, i_depth 18). Qed.

Lemma L26 t p : 290 <= t <= 300 -> 20000000 <= p <= 30000000 -> rel_liq t p <= 5 / 1000.
Proof. intros Ht Hp. unfold rel_liq. expose_liq. interval with (i_bisect t, i_bisect p, i_depth 18). Qed.

Lemma L34 t p : 250 <= t <= 300 -> 50000000 <= p <= 100000000 -> rel_liq t p <= 5 / 1000.
Proof. intros Ht Hp. unfold rel_liq. expose_liq. interval with (i_bisect t, i_bisect p, i_depth 18). Qed.

