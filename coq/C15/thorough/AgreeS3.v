(** C15 (thorough tier only) -- steam density, IFC-67 against IAPWS-97 on tiles, by interval arithmetic. *)
Set Warnings "-ambiguous-paths,-notation-overridden".
From Coq Require Import ZArith QArith Qreals Reals List Bool Lra.
From Interval Require Import Tactic.
From P Require Import Expr Common SatFacts AgreeDefs.
From Gen Require Import GenThermo GenTraced.
Import ListNotations.
Close Scope Q_scope.
Open Scope R_scope.

Lemma S12 t p : 200 <= t <= 250 -> 1000000 <= p <= 1550000 -> rel_stm t p <= 1 / 100.
Proof. intros Ht Hp. unfold rel_stm. expose_stm. interval with (i_taylor t, i_bisect p, i_depth 14, i_degree 5). Qed.

Lemma S42 t p : 500 <= t <= 550 -> 1000000 <= p <= 10000000 -> rel_stm t p <= 1 / 100.
Proof. intros Ht Hp. unfold rel_stm. expose_stm. interval with (i_taylor t, i_bisect p, i_depth 14, i_degree 5). Qed.

Lemma S1 t p : 100 <= t <= 150 -> 25000 <= p <= 50000 -> rel_stm t p <= 1 / 100.
Proof. intros Ht Hp. unfold rel_stm. expose_stm. interval with (i_bisect t, i_bisect p, i_depth 14). Qed.

Lemma S19 t p : 300 <= t <= 350 -> 25000 <= p <= 50000 -> rel_stm t p <= 1 / 100.
Proof. intros Ht Hp. unfold rel_stm. expose_stm. interval with (i_bisect t, i_bisect p, i_depth 14). Qed.

Lemma S39 t p : 500 <= t <= 550 -> 25000 <= p <= 50000 -> rel_stm t p <= 1 / 100.
Proof. intros Ht Hp. unfold rel_stm. expose_stm. interval with (i_bisect t, i_bisect p, i_depth 14). Qed.

Lemma S59 t p : 700 <= t <= 750 -> 12500 <= p <= 25000 -> rel_stm t p <= 1 / 100.
Proof. intros Ht Hp. unfold rel_stm. expose_stm. interval with (i_bisect t, i_bisect p, i_depth 14). Qed.

