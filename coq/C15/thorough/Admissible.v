(** C15 (thorough tier only: one interval enclosure per node of the two DAGs, AdmCW.v and AdmST.v
    compiled in parallel, a few minutes) -- the hypothesis [admissible] of the single-potential theorems is
    satisfiable: it holds for the coefficient values of the current source at a liquid state
    (cowat: theta = 0.6, beta = 0.05, i.e. 115.23 degC, 1.106 MPa) and at a steam state (supst:
    theta = 0.9, beta = 0.05, i.e. 309.42 degC, 1.106 MPa). *)
Set Warnings "-ambiguous-paths,-notation-overridden".
From Coq Require Import ZArith QArith Qreals Reals List Bool Lia Lra.
From Coquelicot Require Import Coquelicot.
From P Require Import Expr Laurent Expand Jet PolyJet Potential Potential67.
From P Require AdmCW AdmST.
From Gen Require Import GenThermo GenTraced.
Import ListNotations.
Close Scope Q_scope.
Open Scope R_scope.

Example cowat_admissible_inhabited : CW.admissible (coefQ cowat_off_coefs_Q) (6 / 10) (5 / 100).
Proof. unfold CW.admissible, admissible. split; [exact AdmCW.side_x|split; [exact AdmCW.side_y|exact AdmCW.atoms]]. Qed.

Example supst_admissible_inhabited : ST.admissible (coefQ supst_off_coefs_Q) (9 / 10) (5 / 100).
Proof. unfold ST.admissible, admissible. split; [exact AdmST.side_x|split; [exact AdmST.side_y|exact AdmST.atoms]]. Qed.

(** hence the Maxwell relation holds there for the source's own coefficients *)
Example cowat_single_potential_at_state :
  exists dchi, is_derive (fun x => CW.chi (coefQ cowat_off_coefs_Q) x (5 / 100)) (6 / 10) dchi /\
               is_derive (fun y => CW.eps (coefQ cowat_off_coefs_Q) (6 / 10) y) (5 / 100)
                         (CW.chi (coefQ cowat_off_coefs_Q) (6 / 10) (5 / 100) - 6 / 10 * dchi).
Proof. apply CW.maxwell. exact cowat_admissible_inhabited. Qed.
