(** C15 (thorough tier only) -- liq density, IFC-67 against IAPWS-97 on tiles, by interval arithmetic. *)
Set Warnings "-ambiguous-paths,-notation-overridden".
From Coq Require Import ZArith QArith Qreals Reals List Bool Lra.
From Interval Require Import Tactic.
From P Require Import Expr Common SatFacts AgreeDefs.
From Gen Require Import GenThermo GenTraced.
Import ListNotations.
Close Scope Q_scope.
Open Scope R_scope.

Lemma L6 t p : 100 <= t <= 150 -> 477000 <= p <= 10000000 -> rel_liq t p <= 5 / 1000.
Proof. intros Ht Hp. unfold rel_liq. expose_liq. interval with (i_bisect t, i_bisect p, i_depth 18). Qed.

Lemma L14 t p : 200 <= t <= 250 -> 50000000 <= p <= 100000000 -> rel_liq t p <= 5 / 1000.
Proof. intros Ht Hp. unfold rel_liq. expose_liq. interval with (i_bisect t, i_bisect p, i_depth 18). Qed.

Lemma L22 t p : 270 <= t <= 280 -> 20000000 <= p <= 30000000 -> rel_liq t p <= 5 / 1000.
Proof. intros Ht Hp. unfold rel_liq. expose_liq. interval with (i_bisect t, i_bisect p, i_depth 18). Qed.

Lemma L30 t p : 310 <= t <= 320 -> 30000000 <= p <= 50000000 -> rel_liq t p <= 5 / 1000.
Proof. intros Ht Hp. unfold rel_liq. expose_liq. interval with (i_bisect t, i_bisect p, i_depth 18). Qed.

