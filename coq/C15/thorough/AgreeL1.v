(** C15 (thorough tier only) -- liq density, IFC-67 against IAPWS-97 on tiles, by interval arithmetic. *)
Set Warnings "-ambiguous-paths,-notation-overridden".
From Coq Require Import ZArith QArith Qreals Reals List Bool Lra.
From Interval Require Import Tactic.
From P Require Import Expr Common SatFacts AgreeDefs.
From Gen Require Import GenThermo GenTraced.
Import ListNotations.
Close Scope Q_scope.
Open Scope R_scope.

Lemma L1 t p : 1 / 100 <= t <= 50 -> 10000000 <= p <= 50000000 -> rel_liq t p <= 5 / 1000.
Proof. intros Ht Hp. unfold rel_liq. expose_liq. interval with (i_bisect t, i_bisect p, i_depth 18). Qed.

Lemma L9 t p : 150 <= t <= 200 -> 1560000 <= p <= 10000000 -> rel_liq t p <= 5 / 1000.
Proof. intros Ht Hp. unfold rel_liq. expose_liq. interval with (i_bisect t, i_bisect p, i_depth 18). Qed.

Lemma L17 t p : 250 <= t <= 260 -> 30000000 <= p <= 50000000 -> rel_liq t p <= 5 / 1000.
Proof. intros Ht Hp. unfold rel_liq. expose_liq. interval with (i_bisect t, i_bisect p, i_depth 18). Qed.

Lemma L25 t p : 280 <= t <= 290 -> 30000000 <= p <= 50000000 -> rel_liq t p <= 5 / 1000.
Proof. intros Ht Hp. unfold rel_liq. expose_liq. interval with (i_bisect t, i_bisect p, i_depth 18). Qed.

Lemma L33 t p : 340 <= t <= 350 -> 40000000 <= p <= 50000000 -> rel_liq t p <= 5 / 1000.
Proof. intros Ht Hp. unfold rel_liq. expose_liq. interval with (i_bisect t, i_bisect p, i_depth 18). Qed.

