(** C15 (thorough tier only) -- the side conditions and the atoms of `admissible` for supst at a
    concrete state (see Admissible.v).  The side conditions are proved once on the real values
    (SideOk.side_step: one interval enclosure per node, no tree expansion) and serve both
    differentiation directions. *)
Set Warnings "-ambiguous-paths,-notation-overridden".
From Coq Require Import ZArith QArith Qreals Reals List Bool Lia Lra.
From Coquelicot Require Import Coquelicot.
From Interval Require Import Tactic.
From P Require Import Expr Laurent Expand Jet PolyJet Potential Potential67 SideOk AdmTactics.
From Gen Require Import GenThermo GenTraced.
Import ListNotations.
Close Scope Q_scope.
Open Scope R_scope.

Ltac simp_c H := lazy [vars coefQ nth supst_off_coefs_Q supst_b_Q supst_sb_Q app Tc1_Q tc_k_Q Pc1_Q] in H.

Lemma sideR : side_okR (vars Tc1_Q tc_k_Q Pc1_Q (9 / 10) (5 / 100)) (coefQ supst_off_coefs_Q) [] ST.ns.
Proof.
  unfold ST.ns, supst_off_nodes.
  repeat (side_step simp_c).
Qed.

Lemma side_x : side_ok (fun s => vars Tc1_Q tc_k_Q Pc1_Q s (5 / 100)) (dvar_x Tc1_Q) (coefQ supst_off_coefs_Q) (9 / 10) [] ST.ns.
Proof. apply side_ok_of_R. exact sideR. Qed.
Lemma side_y : side_ok (fun s => vars Tc1_Q tc_k_Q Pc1_Q (9 / 10) s) (dvar_y Pc1_Q) (coefQ supst_off_coefs_Q) (5 / 100) [] ST.ns.
Proof. apply side_ok_of_R. exact sideR. Qed.

Lemma atoms : forall i, (i < ST.cb)%nat ->
  rho ST.ns ST.tb ST.tvb ST.vb ST.cb ST.st0 Tc1_Q tc_k_Q Pc1_Q (coefQ supst_off_coefs_Q) (9 / 10) (5 / 100) i <> 0.
Proof.
  intros i Hi. unfold ST.cb, ST.vb, supst_off_ncuts in Hi. cbn [Nat.add] in Hi.
  do 19 (destruct i as [|i]; [rho_nz supst_off_nodes supst_off_coefs_Q|]). lia.
Qed.
