(** C15 (thorough tier only) -- the side conditions and the atoms of `admissible` for cowat at a
    concrete state (see Admissible.v).  The side conditions are proved once on the real values
    (SideOk.side_step: one interval enclosure per node, no tree expansion) and serve both
    differentiation directions. *)
Set Warnings "-ambiguous-paths,-notation-overridden".
From Coq Require Import ZArith QArith Qreals Reals List Bool Lia Lra.
From Coquelicot Require Import Coquelicot.
From Interval Require Import Tactic.
From P Require Import Expr Laurent Expand Jet PolyJet Potential Potential67 SideOk AdmTactics.
From Gen Require Import GenThermo GenTraced.
Import ListNotations.
Close Scope Q_scope.
Open Scope R_scope.

Ltac simp_c H := lazy [vars coefQ nth cowat_off_coefs_Q cowat_a_Q cowat_sa_Q app Tc1_Q tc_k_Q Pc1_Q] in H.

Lemma sideR : side_okR (vars Tc1_Q tc_k_Q Pc1_Q (6 / 10) (5 / 100)) (coefQ cowat_off_coefs_Q) [] CW.ns.
Proof.
  unfold CW.ns.
  let ns := eval lazy [fixpow map cowat_off_nodes] in (fixpow (5 # 17) cowat_off_nodes) in change (fixpow (5 # 17) cowat_off_nodes) with ns.
  repeat (side_step simp_c).
Qed.

Lemma side_x : side_ok (fun s => vars Tc1_Q tc_k_Q Pc1_Q s (5 / 100)) (dvar_x Tc1_Q) (coefQ cowat_off_coefs_Q) (6 / 10) [] CW.ns.
Proof. apply side_ok_of_R. exact sideR. Qed.
Lemma side_y : side_ok (fun s => vars Tc1_Q tc_k_Q Pc1_Q (6 / 10) s) (dvar_y Pc1_Q) (coefQ cowat_off_coefs_Q) (5 / 100) [] CW.ns.
Proof. apply side_ok_of_R. exact sideR. Qed.

Lemma atoms : forall i, (i < CW.cb)%nat ->
  rho CW.ns CW.tb CW.tvb CW.vb CW.cb CW.st0 Tc1_Q tc_k_Q Pc1_Q (coefQ cowat_off_coefs_Q) (6 / 10) (5 / 100) i <> 0.
Proof.
  intros i Hi. unfold CW.cb, CW.vb, cowat_off_ncuts in Hi. cbn [Nat.add] in Hi.
  do 19 (destruct i as [|i]; [rho_nz cowat_off_nodes cowat_off_coefs_Q|]). lia.
Qed.
