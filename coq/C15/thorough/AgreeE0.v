(** C15 (thorough tier only) -- internal energy, IFC-67 against IAPWS-97 on one tile, by interval arithmetic. *)
Set Warnings "-ambiguous-paths,-notation-overridden".
From Coq Require Import ZArith QArith Qreals Reals List Bool Lra.
From Interval Require Import Tactic.
From P Require Import Expr Common SatFacts AgreeDefs.
From Gen Require Import GenThermo GenTraced.
Import ListNotations.
Close Scope Q_scope.
Open Scope R_scope.

Lemma E0 t p : 550 <= t <= 590 -> 5000000 <= p <= 10000000 -> relu_stm t p <= 6 / 1000.
Proof. intros Ht Hp. unfold relu_stm. expose_ustm. interval with (i_taylor t, i_bisect p, i_depth 10, i_degree 5). Qed.
