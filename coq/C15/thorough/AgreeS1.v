(** C15 (thorough tier only) -- steam density, IFC-67 against IAPWS-97 on tiles, by interval arithmetic. *)
Set Warnings "-ambiguous-paths,-notation-overridden".
From Coq Require Import ZArith QArith Qreals Reals List Bool Lra.
From Interval Require Import Tactic.
From P Require Import Expr Common SatFacts AgreeDefs.
From Gen Require Import GenThermo GenTraced.
Import ListNotations.
Close Scope Q_scope.
Open Scope R_scope.

Lemma S7 t p : 150 <= t <= 200 -> 100000 <= p <= 475000 -> rel_stm t p <= 1 / 100.
Proof. intros Ht Hp. unfold rel_stm. expose_stm. interval with (i_taylor t, i_bisect p, i_depth 14, i_degree 5). Qed.

Lemma S37 t p : 450 <= t <= 500 -> 1000000 <= p <= 10000000 -> rel_stm t p <= 1 / 100.
Proof. intros Ht Hp. unfold rel_stm. expose_stm. interval with (i_taylor t, i_bisect p, i_depth 14, i_degree 5). Qed.

Lemma S69 t p : 750 <= t <= 800 -> 1000000 <= p <= 10000000 -> rel_stm t p <= 1 / 100.
Proof. intros Ht Hp. unfold rel_stm. expose_stm. interval with (i_taylor t, i_bisect p, i_depth 14, i_degree 5). Qed.

