(** C11 -- conformity across neighbouring columns, at the level of node names.

    refine() decides per column which sides are refined by looking the *unordered* pair of
    corner names up in the dict `sidenodes` (here: a predicate [sn] on normalised pairs), and
    fetches the mid-side node from the same dict.  Main.refine_column_area_ shows that the
    subdivision of a column leaves on its boundary exactly [expected_boundary nn sides]; this
    file names those boundary edges globally and shows that the two columns sharing a side see
    the same edges in opposite directions: both unsplit, or both split at the same node. *)
From Coq Require Import List Arith Bool Lia.
From P Require Import Geom Comb.
Import ListNotations.

Definition upair (a b : nat) : nat * nat := (Nat.min a b, Nat.max a b).
Lemma upair_comm a b : upair a b = upair b a.
Proof. unfold upair. now rewrite Nat.min_comm, Nat.max_comm. Qed.

Inductive gnode := GOld (name : nat) | GMid (p : nat * nat) | GCen (col : nat).
Definition gedge := (gnode * gnode)%type.
Definition gswap (e : gedge) : gedge := (snd e, fst e).
Definition node_at (col : list nat) (k : nat) : nat := nth k col 0.
(** global identity of a resolved vertex of column [col] (identified by [cid]) *)
Definition gname (col : list nat) (cid : nat) (v : rvtx) : gnode :=
  match v with
  | RC k => GOld (node_at col k)
  | RM k l => GMid (upair (node_at col k) (node_at col l))
  | RCen => GCen cid
  end.
Definition gname_edge col cid (e : edge) : gedge := (gname col cid (fst e), gname col cid (snd e)).

(** for i, corner in enumerate(col.node):
      if frozenset((corner.name, col.node[(i + 1) % nn].name)) in sidenodes: refined_sides.append(i) *)
Definition side_pair (col : list nat) (i : nat) : nat * nat :=
  upair (node_at col i) (node_at col ((i + 1) mod length col)).
Definition refined_sides (sn : nat * nat -> bool) (col : list nat) : list nat :=
  filter (fun i => sn (side_pair col i)) (seq 0 (length col)).

Lemma inc_from_filter_seq f : forall n k, inc_from k (filter f (seq k n)) = true.
Proof.
  induction n as [|n IH]; intro k; [reflexivity|]. cbn [seq filter].
  destruct (f k).
  - cbn [inc_from]. rewrite Nat.leb_refl. apply IH.
  - apply inc_from_weaken with (k := S k); [lia|apply IH].
Qed.
(** what refine() builds is a side set in the sense of transition_type_total *)
Lemma refined_sides_is_side_set sn col : is_side_set (length col) (refined_sides sn col) = true.
Proof.
  unfold is_side_set, refined_sides. rewrite inc_from_filter_seq. cbn [andb].
  apply forallb_forall. intros x Hx. apply filter_In in Hx. destruct Hx as [Hx _].
  apply in_seq in Hx. apply Nat.ltb_lt. lia.
Qed.
Lemma nmem_refined sn col i : i < length col -> nmem i (refined_sides sn col) = sn (side_pair col i).
Proof.
  intro Hi. unfold nmem, refined_sides. destruct (sn (side_pair col i)) eqn:E.
  - apply existsb_exists. exists i. split; [|apply Nat.eqb_refl].
    apply filter_In. split; [apply in_seq; lia|auto].
  - apply not_true_is_false. intro H. apply existsb_exists in H. destruct H as [x [Hx Hxe]].
    apply Nat.eqb_eq in Hxe. subst x. apply filter_In in Hx. destruct Hx as [_ Hx]. congruence.
Qed.

(** the boundary edges of side i in global names: unsplit, or split at the mid-side node of
    the unordered pair *)
Definition gside (sn : nat * nat -> bool) (col : list nat) (i : nat) : list gedge :=
  let a := node_at col i in let b := node_at col ((i + 1) mod length col) in
  if sn (upair a b) then [(GOld a, GMid (upair a b)); (GMid (upair a b), GOld b)] else [(GOld a, GOld b)].

Lemma side_mid_named col cid i :
  gname col cid (side_mid (length col) i) = GMid (side_pair col i).
Proof.
  unfold side_mid, side_pair. cbn [gname]. f_equal.
  destruct (Nat.le_ge_cases i ((i + 1) mod length col)) as [H|H].
  - rewrite Nat.min_l, Nat.max_r by auto. reflexivity.
  - rewrite Nat.min_r, Nat.max_l by auto. apply upair_comm.
Qed.
Lemma side_part_named sn col cid i : i < length col ->
  map (gname_edge col cid) (side_part (length col) (refined_sides sn col) i) = gside sn col i.
Proof.
  intro Hi. unfold side_part, gside. rewrite nmem_refined by auto. fold (side_pair col i).
  destruct (sn (side_pair col i)); unfold gname_edge; cbn [map fst snd]; rewrite ?side_mid_named; reflexivity.
Qed.
(** the boundary a subdivision must leave (and, by transition_type_total, does leave), named *)
Lemma expected_boundary_named_ sn col cid :
  map (gname_edge col cid) (expected_boundary (length col) (refined_sides sn col)) =
  flat_map (gside sn col) (seq 0 (length col)).
Proof.
  unfold expected_boundary.
  assert (H : forall l, (forall i, In i l -> i < length col) ->
            map (gname_edge col cid) (flat_map (side_part (length col) (refined_sides sn col)) l) = flat_map (gside sn col) l).
  { induction l as [|i l IH]; intro Hl; [reflexivity|].
    cbn [flat_map]. rewrite map_app, side_part_named by (apply Hl; left; auto).
    rewrite IH; [reflexivity|]. intros; apply Hl; right; auto. }
  apply H. intros i Hi. apply in_seq in Hi. lia.
Qed.

(** two columns A and B sharing a side (A runs a -> b along it, B runs b -> a): whatever the
    contents of sidenodes, B's boundary edges on that side are exactly A's, reversed --
    no hanging node *)
Lemma refine_conforming_ sn (A B : list nat) i j :
  node_at A i = node_at B ((j + 1) mod length B) ->
  node_at A ((i + 1) mod length A) = node_at B j ->
  gside sn B j = map gswap (rev (gside sn A i)).
Proof.
  intros H1 H2. unfold gside. rewrite H1, H2.
  rewrite (upair_comm (node_at B ((j + 1) mod length B)) (node_at B j)).
  destruct (sn (upair (node_at B j) (node_at B ((j + 1) mod length B)))); reflexivity.
Qed.
(** and the two columns agree on whether the side is refined *)
Lemma refine_same_decision_ sn (A B : list nat) i j :
  i < length A -> j < length B ->
  node_at A i = node_at B ((j + 1) mod length B) ->
  node_at A ((i + 1) mod length A) = node_at B j ->
  nmem i (refined_sides sn A) = nmem j (refined_sides sn B).
Proof.
  intros Hi Hj H1 H2. rewrite !nmem_refined by auto. unfold side_pair. rewrite H1, H2. now rewrite upair_comm.
Qed.

Example ex_conforming :
  let sn := fun p => Nat.eqb (fst p) 2 && Nat.eqb (snd p) 3 in
  refined_sides sn [1; 2; 3; 4] = [1] /\ refined_sides sn [3; 2; 7] = [0] /\
  gside sn [3; 2; 7] 0 = map gswap (rev (gside sn [1; 2; 3; 4] 1)).
Proof. cbv. auto. Qed.

(** ** the dict sidenodes as a finite map.  create_mid_node stores the new node under
      nodenames = frozenset((node1.name, node2.name));  sidenodes[nodenames] = self.nodelist[-1]
    and refine() reads it back with  frozenset(...) in sidenodes  /  sidenodes[frozenset(...)]:
    keys are UNORDERED pairs, modelled as (min, max). *)
Definition smap := list ((nat * nat) * nat).
Definition pair_eqb (a b : nat * nat) : bool := Nat.eqb (fst a) (fst b) && Nat.eqb (snd a) (snd b).
Fixpoint slookup (k : nat * nat) (m : smap) : option nat :=
  match m with [] => None | (k', v) :: r => if pair_eqb k k' then Some v else slookup k r end.
Definition sn_of (m : smap) : nat * nat -> bool := fun k => match slookup k m with Some _ => true | None => false end.
Definition create_mid_node (a b newname : nat) (m : smap) : smap := (upair a b, newname) :: m.
Lemma pair_eqb_refl k : pair_eqb k k = true.
Proof. unfold pair_eqb. now rewrite !Nat.eqb_refl. Qed.
(** whichever way round the two corners are given, the node created for a side is the node found *)
Lemma create_then_lookup a b a' b' n m :
  upair a b = upair a' b' -> slookup (upair a' b') (create_mid_node a b n m) = Some n.
Proof. intro E. unfold create_mid_node. cbn [slookup]. rewrite <- E, pair_eqb_refl. reflexivity. Qed.
Lemma lookup_unordered a b m : slookup (upair a b) m = slookup (upair b a) m.
Proof. now rewrite upair_comm. Qed.
Example ex_smap :
  let m := create_mid_node 7 3 100 (create_mid_node 3 9 101 []) in
  slookup (upair 3 7) m = Some 100 /\ slookup (upair 9 3) m = Some 101 /\ sn_of m (upair 7 9) = false.
Proof. cbv. auto. Qed.
