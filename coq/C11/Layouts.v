(** C11 -- decompose_column's centre-less special cases (5,1), (6,2; d=3) and (7,3): the new
    columns are positively oriented triangles / strictly convex quadrilaterals whenever the
    polygon is a strictly convex quadrilateral A B C D with the straight nodes strictly inside
    its sides in the layout the guards of decompose_column select (one straight node; two on
    opposite sides; three on three different sides) -- for every rotation of the node numbering.
    Every orientation is written as an explicit positive combination of the four corner
    orientations of A B C D (identities closed by ring). *)
From Coq Require Import List Arith Bool ZArith Reals Lra Lia.
From P Require Import Geom Comb Cross.
From Gen Require Import GenRefine.
From P Require Import Model Decomp73.
Import ListNotations.
Open Scope R_scope.

Definition conv4 (A B C D : pt) : Prop := 0 < orient A B C /\ 0 < orient B C D /\ 0 < orient C D A /\ 0 < orient D A B.
Lemma convex_ccw_conv4 A B C D : convex_ccw [A; B; C; D] -> conv4 A B C D.
Proof.
  intro H. destruct A, B, C, D. crunch_in H. forall_inv_all. unfold conv4, orient. cbn [fst snd]. repeat split; lra.
Qed.

Ltac lring := repeat match goal with p : pt |- _ => destruct p end; unfold lerp, orient; cbn [fst snd]; ring.
Ltac poscomb :=
  repeat match goal with
         | |- 0 < _ + _ => apply Rplus_lt_0_compat
         | |- 0 < _ * _ => apply Rmult_lt_0_compat
         end; lra.
Ltac comb rhs :=
  match goal with |- 0 < ?lhs => replace lhs with rhs by lring end; poscomb.

Section Facts.
Variables (t0 t1 t2 : R).
Hypothesis (H0 : 0 < t0 < 1) (H1 : 0 < t1 < 1) (H2 : 0 < t2 < 1).

(** one straight node S on side A B *)
Lemma pent_a A B C D : conv4 A B C D -> 0 < orient (lerp A B t0) B C.
Proof. intros (Q1 & Q2 & Q3 & Q4). comb ((1 - t0) * orient A B C). Qed.
Lemma pent_b A B C D : conv4 A B C D -> 0 < orient (lerp A B t0) C D.
Proof. intros (Q1 & Q2 & Q3 & Q4). comb ((1 - t0) * orient C D A + t0 * orient B C D). Qed.
Lemma pent_c A B C D : conv4 A B C D -> 0 < orient (lerp A B t0) D A.
Proof. intros (Q1 & Q2 & Q3 & Q4). comb (t0 * orient D A B). Qed.

(** straight nodes P0 on A B and P3 on C D *)
Lemma hex_q1 A B C D : conv4 A B C D -> convex4 (lerp A B t0) B C (lerp C D t1).
Proof.
  intros (Q1 & Q2 & Q3 & Q4). unfold convex4. repeat split.
  - comb ((1 - t0) * orient A B C).
  - comb (t1 * orient B C D).
  - comb (t1 * ((1 - t0) * orient C D A + t0 * orient B C D)).
  - comb ((1 - t0) * ((1 - t1) * orient A B C + t1 * orient D A B)).
Qed.
Lemma hex_q2 A B C D : conv4 A B C D -> convex4 (lerp C D t1) D A (lerp A B t0).
Proof.
  intros (Q1 & Q2 & Q3 & Q4). unfold convex4. repeat split.
  - comb ((1 - t1) * orient C D A).
  - comb (t0 * orient D A B).
  - comb (t0 * ((1 - t1) * orient A B C + t1 * orient D A B)).
  - comb ((1 - t1) * ((1 - t0) * orient C D A + t0 * orient B C D)).
Qed.

(** straight nodes p0 on A B, p2 on B C, p4 on C D *)
Lemma hept_a A B C D : conv4 A B C D -> 0 < orient (lerp A B t0) B (lerp B C t1).
Proof. intros (Q1 & Q2 & Q3 & Q4). comb ((1 - t0) * t1 * orient A B C). Qed.
Lemma hept_b A B C D : conv4 A B C D -> 0 < orient (lerp B C t1) C (lerp C D t2).
Proof. intros (Q1 & Q2 & Q3 & Q4). comb ((1 - t1) * t2 * orient B C D). Qed.
Lemma hept_c A B C D : conv4 A B C D -> 0 < orient (lerp A B t0) (lerp B C t1) (lerp C D t2).
Proof.
  intros (Q1 & Q2 & Q3 & Q4).
  comb ((1 - t0) * (1 - t1) * ((1 - t2) * orient A B C) + (1 - t0) * (1 - t1) * (t2 * orient D A B)
        + (1 - t0) * t1 * (t2 * orient C D A) + t0 * t1 * (t2 * orient B C D)).
Qed.
Lemma hept_q A B C D : conv4 A B C D -> convex4 (lerp C D t2) D A (lerp A B t0).
Proof.
  intros (Q1 & Q2 & Q3 & Q4). unfold convex4. repeat split.
  - comb ((1 - t2) * orient C D A).
  - comb (t0 * orient D A B).
  - comb (t0 * ((1 - t2) * orient A B C + t2 * orient D A B)).
  - comb ((1 - t2) * ((1 - t0) * orient C D A + t0 * orient B C D)).
Qed.
End Facts.

(** ** the layouts, in the node order the special cases expect, and all their rotations *)
Definition pent_layout (A B C D : pt) (t : R) : list pt := [lerp A B t; B; C; D; A].
Definition hex_layout (A B C D : pt) (t0 t1 : R) : list pt := [lerp A B t0; B; C; lerp C D t1; D; A].
Definition straight_rot (n : nat) (pos : list nat) (r : nat) : list nat :=
  filter (fun i => nmem ((i + r) mod n) pos) (seq 0 n).

Ltac rotations r Hd tac :=
  do 7 try (destruct r as [|r]; [vm_compute in Hd; inversion Hd; subst; clear Hd; split; [lia|];
                             unfold children_good; repeat (apply Forall_cons; [tac|]); apply Forall_nil|]);
  try (exfalso; lia).

Lemma pent_good_ (A B C D : pt) (t : R) (c : pt) (r start : nat) (e : entry) :
  convex_ccw [A; B; C; D] -> 0 < t < 1 -> (r < 5)%nat ->
  decompose_model 5 (straight_rot 5 [0%nat] r) = DSub start e ->
  (start < 5)%nat /\ children_good (rotl r (pent_layout A B C D t)) c start e.
Proof.
  intros Hc Ht Hr Hd. apply convex_ccw_conv4 in Hc.
  pose proof (pent_a t Ht A B C D Hc) as Pa. pose proof (pent_b t Ht A B C D Hc) as Pb. pose proof (pent_c t Ht A B C D Hc) as Pc.
  rotations r Hd ltac:(first [exact Pa | exact Pb | exact Pc]).
Qed.
Lemma hex_good_ (A B C D : pt) (t0 t1 : R) (c : pt) (r start : nat) (e : entry) :
  convex_ccw [A; B; C; D] -> 0 < t0 < 1 -> 0 < t1 < 1 -> (r < 6)%nat ->
  decompose_model 6 (straight_rot 6 [0; 3]%nat r) = DSub start e ->
  (start < 6)%nat /\ children_good (rotl r (hex_layout A B C D t0 t1)) c start e.
Proof.
  intros Hc H0 H1 Hr Hd. apply convex_ccw_conv4 in Hc.
  pose proof (hex_q1 t0 t1 H0 H1 A B C D Hc) as Q1. pose proof (hex_q2 t0 t1 H0 H1 A B C D Hc) as Q2.
  rotations r Hd ltac:(first [exact Q1 | exact Q2]).
Qed.
Lemma hept_good_ (A B C D : pt) (t0 t1 t2 : R) (c : pt) (r start : nat) (e : entry) :
  convex_ccw [A; B; C; D] -> 0 < t0 < 1 -> 0 < t1 < 1 -> 0 < t2 < 1 -> (r < 7)%nat ->
  decompose_model 7 (straight_layout r) = DSub start e ->
  (start < 7)%nat /\ children_good (rotl r (hept_layout A B C D t0 t1 t2)) c start e.
Proof.
  intros Hc H0 H1 H2 Hr Hd. apply convex_ccw_conv4 in Hc.
  pose proof (hept_a t0 t1 H0 H1 A B C D Hc) as Ca. pose proof (hept_b t1 t2 H1 H2 A B C D Hc) as Cb.
  pose proof (hept_c t0 t1 t2 H0 H1 H2 A B C D Hc) as Cc. pose proof (hept_q t0 t2 H0 H2 A B C D Hc) as Cq.
  rotations r Hd ltac:(first [exact Ca | exact Cb | exact Cc | exact Cq]).
Qed.
Example ex_layouts :
  straight_rot 5 [0%nat] 3 = [2%nat] /\ straight_rot 6 [0; 3]%nat 1 = [2; 5]%nat /\
  decompose_model 5 (straight_rot 5 [0%nat] 3) <> DKeep /\ decompose_model 6 (straight_rot 6 [0; 3]%nat 1) <> DKeep.
Proof. repeat split; try reflexivity; vm_compute; discriminate. Qed.
