(** C11 -- rock volume of a column and refine_layers, over Q (axiom-free, executable).

    Layers below the atmosphere layer are given by the top elevation [T] and the list of
    thicknesses (mulgrid.add_layers: z = top; for each thickness: z -= thickness; bottom = z;
    identify_layer_tops: top of a layer = bottom of the one above).  For a column with plan
    area [A] and surface elevation [s] the blocks are those with  s > layer.bottom
    (block_name_list_layer_column) and

      block_surface(lay, col):                       block_volume = (surf - lay.bottom) * col.area
        if col.surface < lay.top:
            if lay.bottom < col.surface: col.surface else None
        elif col.surface > layerlist[0].top:
            if lay is layerlist[1]: col.surface else lay.top
        else: lay.top                                                                     *)
From Coq Require Import List Arith Bool QArith Lia Lqa.
Import ListNotations.
Open Scope Q_scope.

Definition block_surface (first : bool) (T0 top bottom s : Q) : option Q :=
  if Qlt_le_dec s top then (if Qlt_le_dec bottom s then Some s else None)
  else if Qlt_le_dec T0 s then (if first then Some s else Some top)
  else Some top.
Definition block_volume (first : bool) (T0 top bottom A s : Q) : option Q :=
  match block_surface first T0 top bottom s with Some surf => Some ((surf - bottom) * A) | None => None end.
Definition oadd (a b : option Q) : option Q :=
  match a, b with Some x, Some y => Some (x + y) | _, _ => None end.
(** sum of block_volume over the column's entries of block_name_list; [None] = a TypeError *)
Fixpoint blocks_volume (first : bool) (T0 top : Q) (ths : list Q) (A s : Q) : option Q :=
  match ths with
  | [] => Some 0
  | th :: r =>
      let b := top - th in
      oadd (if Qlt_le_dec b s then block_volume first T0 top b A s else Some 0)
           (blocks_volume false T0 b r A s)
  end.
Definition column_volume (T : Q) (ths : list Q) (A s : Q) : option Q := blocks_volume true T T ths A s.

Fixpoint qsum (l : list Q) : Q := match l with [] => 0 | x :: r => x + qsum r end.
Definition pos_part (x : Q) : Q := if Qlt_le_dec 0 x then x else 0.
Definition qmin (a b : Q) : Q := if Qlt_le_dec a b then a else b.
Definition all_pos (l : list Q) : Prop := Forall (fun x => 0 < x) l.

Definition oeq (a : option Q) (b : Q) : Prop := match a with Some x => x == b | None => False end.

Lemma oadd_oeq a b x y : oeq a x -> oeq b y -> oeq (oadd a b) (x + y).
Proof. destruct a, b; cbn [oeq oadd]; try tauto. intros -> ->. reflexivity. Qed.
Lemma oeq_compat a x y : x == y -> oeq a x -> oeq a y.
Proof. destruct a; cbn [oeq]; [intros <-; auto|tauto]. Qed.

Ltac qcases :=
  repeat match goal with
         | |- context [Qlt_le_dec ?a ?b] => destruct (Qlt_le_dec a b)
         | H : context [Qlt_le_dec ?a ?b] |- _ => destruct (Qlt_le_dec a b)
         end; try lra.

(** rock between elevations lo and hi in a column whose surface is s *)
Definition rock (lo hi s : Q) : Q := pos_part (qmin s hi - lo).
Lemma rock_split lo mid hi s : lo <= mid -> mid <= hi -> rock mid hi s + rock lo mid s == rock lo hi s.
Proof. unfold rock, pos_part, qmin. intros. qcases. Qed.
Lemma rock_split_first lo mid s : lo <= mid -> pos_part (s - mid) + rock lo mid s == pos_part (s - lo).
Proof. unfold rock, pos_part, qmin. intros. qcases. Qed.
Lemma pos_part_ext x y : x == y -> pos_part x == pos_part y.
Proof. unfold pos_part. intro. qcases. Qed.
Lemma qsum_nonneg l : all_pos l -> 0 <= qsum l.
Proof. induction 1; cbn [qsum]; lra. Qed.

(** one block, including the test  s > bottom  that puts it on the block list *)
Lemma block_nonfirst T0 top b A s : b < top ->
  oeq (if Qlt_le_dec b s then block_volume false T0 top b A s else Some 0) (rock b top s * A).
Proof.
  intro H. unfold block_volume, block_surface, rock, pos_part, qmin.
  qcases; cbn [oeq]; try lra; ring_simplify; try lra; try reflexivity.
Qed.
Lemma block_first T0 b A s : b < T0 ->
  oeq (if Qlt_le_dec b s then block_volume true T0 T0 b A s else Some 0) (pos_part (s - b) * A).
Proof.
  intro H. unfold block_volume, block_surface, pos_part.
  qcases; cbn [oeq]; try lra; ring_simplify; try lra; try reflexivity.
  assert (E : s == T0) by lra. rewrite E. ring.
Qed.

Lemma blocks_volume_nonfirst T0 : forall ths top A s, all_pos ths ->
  oeq (blocks_volume false T0 top ths A s) (rock (top - qsum ths) top s * A).
Proof.
  induction ths as [|th r IH]; intros top A s Hp.
  - cbn [blocks_volume qsum oeq]. unfold rock, pos_part, qmin. qcases; ring_simplify; lra.
  - inversion Hp as [|? ? Hth Hr]; subst. cbn [blocks_volume qsum].
    pose proof (qsum_nonneg r Hr) as Hs.
    eapply oeq_compat; [|apply oadd_oeq; [apply block_nonfirst; lra|apply (IH (top - th) A s Hr)]].
    assert (E : rock (top - th - qsum r) (top - th) s == rock (top - (th + qsum r)) (top - th) s)
      by (unfold rock, pos_part, qmin; qcases).
    rewrite E, <- (rock_split (top - (th + qsum r)) (top - th) top s) by lra. ring.
Qed.

(** the rock volume of a column telescopes: it only depends on the area, the surface and the
    bottom of the lowest layer *)
Lemma column_volume_closed T ths A s : all_pos ths ->
  oeq (column_volume T ths A s) (match ths with [] => 0 | _ => pos_part (s - (T - qsum ths)) * A end).
Proof.
  unfold column_volume. destruct ths as [|th r]; intro Hp; [cbn [blocks_volume oeq]; reflexivity|].
  inversion Hp as [|? ? Hth Hr]; subst. cbn [blocks_volume qsum].
  pose proof (qsum_nonneg r Hr) as Hs.
  eapply oeq_compat; [|apply oadd_oeq; [apply block_first; lra|apply (blocks_volume_nonfirst T (r) (T - th) A s Hr)]].
  assert (E : rock (T - th - qsum r) (T - th) s == rock (T - (th + qsum r)) (T - th) s)
    by (unfold rock, pos_part, qmin; qcases).
  rewrite E, <- (rock_split_first (T - (th + qsum r)) (T - th) s) by lra. ring.
Qed.

(** ** refine_layers: thicknesses of selected layers are replaced by [factor] equal parts *)
Fixpoint refine_ths (factor : nat) (sel : list bool) (ths : list Q) : list Q :=
  match ths with
  | [] => []
  | th :: r =>
      let b := match sel with b :: _ => b | [] => false end in
      (if b then repeat (th / inject_Z (Z.of_nat factor)) factor else [th]) ++ refine_ths factor (tl sel) r
  end.
Lemma qsum_app a b : qsum (a ++ b) == qsum a + qsum b.
Proof. induction a as [|x a IH]; cbn [app qsum]; [ring|rewrite IH; ring]. Qed.
Lemma qsum_repeat x n : qsum (repeat x n) == inject_Z (Z.of_nat n) * x.
Proof.
  induction n as [|n IH]; [cbn; ring|]. cbn [repeat qsum]. rewrite IH, Nat2Z.inj_succ.
  unfold Z.succ. rewrite inject_Z_plus. ring.
Qed.
Lemma refine_ths_sum factor : (0 < factor)%nat -> forall ths sel, qsum (refine_ths factor sel ths) == qsum ths.
Proof.
  intros Hf. induction ths as [|th r IH]; intro sel; [reflexivity|].
  cbn [refine_ths qsum]. rewrite qsum_app, IH.
  destruct (match sel with b :: _ => b | [] => false end); [|cbn [qsum]; ring].
  rewrite qsum_repeat. field. change 0 with (inject_Z 0). rewrite inject_Z_injective. lia.
Qed.
Lemma refine_ths_pos factor : (0 < factor)%nat -> forall ths sel, all_pos ths -> all_pos (refine_ths factor sel ths).
Proof.
  intros Hf. induction ths as [|th r IH]; intros sel Hp; [constructor|].
  inversion Hp; subst. cbn [refine_ths]. apply Forall_app; split; [|apply IH; auto].
  destruct (match sel with b :: _ => b | [] => false end); [|repeat constructor; auto].
  apply Forall_forall. intros x Hx. apply repeat_spec in Hx. subst.
  assert (0 < inject_Z (Z.of_nat factor)) by (change 0 with (inject_Z 0); rewrite <- Zlt_Qlt; lia).
  apply Qlt_shift_div_l; lra.
Qed.
Lemma refine_ths_nil factor ths sel : (0 < factor)%nat -> refine_ths factor sel ths = [] -> ths = [].
Proof.
  destruct ths as [|th r]; auto. cbn [refine_ths]. intros Hf H. apply app_eq_nil in H. destruct H as [H _].
  destruct (match sel with b :: _ => b | [] => false end); [|discriminate].
  destruct factor; [lia|discriminate].
Qed.

(** refine_layers leaves the volume of every column unchanged, whatever its surface *)
Lemma refine_layers_column_volume T ths sel factor A s v :
  all_pos ths -> (0 < factor)%nat ->
  column_volume T ths A s = Some v ->
  oeq (column_volume T (refine_ths factor sel ths) A s) v.
Proof.
  intros Hp Hf Hv.
  pose proof (column_volume_closed T ths A s Hp) as H0. rewrite Hv in H0. cbn [oeq] in H0.
  pose proof (column_volume_closed T _ A s (refine_ths_pos factor Hf ths sel Hp)) as H1.
  eapply oeq_compat; [|exact H1]. rewrite H0.
  destruct (refine_ths factor sel ths) eqn:E.
  - apply refine_ths_nil in E; auto. subst. reflexivity.
  - destruct ths as [|th r]; [discriminate|]. rewrite <- E.
    assert (Q1 : pos_part (s - (T - qsum (refine_ths factor sel (th :: r)))) == pos_part (s - (T - qsum (th :: r)))).
    { apply pos_part_ext. rewrite refine_ths_sum; auto. reflexivity. }
    rewrite Q1. reflexivity.
Qed.
Lemma column_volume_defined T ths A s : all_pos ths -> exists v, column_volume T ths A s = Some v.
Proof. intro Hp. pose proof (column_volume_closed T ths A s Hp) as H. destruct (column_volume T ths A s); [eauto|destruct H]. Qed.

(** children inheriting the surface: volume is additive in the area, so a subdivision whose
    areas add up to the parent's conserves the volume *)
Lemma column_volume_additive T ths A1 A2 s v1 v2 :
  all_pos ths -> column_volume T ths A1 s = Some v1 -> column_volume T ths A2 s = Some v2 ->
  oeq (column_volume T ths (A1 + A2) s) (v1 + v2).
Proof.
  intros Hp H1 H2.
  pose proof (column_volume_closed T ths A1 s Hp) as E1. rewrite H1 in E1.
  pose proof (column_volume_closed T ths A2 s Hp) as E2. rewrite H2 in E2.
  pose proof (column_volume_closed T ths (A1 + A2) s Hp) as E. cbn [oeq] in E1, E2.
  eapply oeq_compat; [|exact E]. rewrite E1, E2. destruct ths; ring.
Qed.

(** non-vacuity: three layers, surface inside the second one, the middle layer split in 3 *)
Example ex_volume :
  (all_pos [10; 20; 30]) /\
  (column_volume 100 [10; 20; 30] 7 85 = Some (0 + (15 * 7 + (30 * 7 + 0)))) /\
  (refine_ths 3 [false; true; false] [10; 20; 30] = [10; 20 / 3; 20 / 3; 20 / 3; 30]).
Proof. split; [repeat constructor; reflexivity|split; vm_compute; reflexivity]. Qed.

(** ** a whole subdivision: the new columns inherit the parent's surface [s]; when their areas
    add up to the parent's, so do their rock volumes (any number of new columns) *)
Fixpoint osum (l : list (option Q)) : option Q :=
  match l with [] => Some 0 | x :: r => oadd x (osum r) end.
Lemma children_volume_conserved_ T ths s (areas : list Q) A v :
  all_pos ths -> column_volume T ths A s = Some v -> qsum areas == A ->
  oeq (osum (map (fun a => column_volume T ths a s) areas)) v.
Proof.
  intros Hp Hv Hs.
  pose proof (column_volume_closed T ths A s Hp) as E. rewrite Hv in E. cbn [oeq] in E.
  set (K := match ths with [] => 0 | _ => pos_part (s - (T - qsum ths)) end).
  assert (EK : forall a, oeq (column_volume T ths a s) (K * a)).
  { intro a. eapply oeq_compat; [|apply column_volume_closed; auto]. unfold K. destruct ths; ring. }
  assert (H : oeq (osum (map (fun a => column_volume T ths a s) areas)) (K * qsum areas)).
  { clear Hs. induction areas as [|a r IH]; cbn [map osum qsum].
    - cbn [oeq]. ring.
    - eapply oeq_compat; [|apply oadd_oeq; [apply EK|apply IH]]. ring. }
  eapply oeq_compat; [|exact H]. rewrite Hs, E. unfold K. destruct ths; ring.
Qed.
Example ex_children_volume :
  oeq (osum (map (fun a => column_volume 100 [10; 20; 30] a 85) [3; 2; 2])) (0 + (15 * 7 + (30 * 7 + 0))).
Proof. vm_compute. reflexivity. Qed.
