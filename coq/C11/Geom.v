(** C11 -- plane geometry over R used by the refinement theorems.

    [poly_area] follows geometry.polygon_area literally (the polygon is first shifted by its
    first vertex, then the shoelace sum is halved); [poly_area_shoelace] shows the shift is
    immaterial.  A table entry of mulgrids.refine / decompose_column denotes child polygons
    whose vertices are parent corners [Corner i], mid-points of two corners [Mid i j] or the
    centre node [Centre]; [vpos] is the way the code resolves them:
      corner i  ->  col.node[(istart + i) % nn]
      (i, j)    ->  sidenodes[frozenset(those two corners)]   (positioned at their mid-point)
      'c'       ->  the centre node. *)
From Coq Require Import List Reals Lra Lia Arith Bool.
Import ListNotations.
Open Scope R_scope.

Definition pt := (R * R)%type.
Definition cross (p q : pt) : R := fst p * snd q - fst q * snd p.

(** sum of cross products along an open chain of points *)
Fixpoint chain (l : list pt) : R :=
  match l with
  | p :: ((q :: _) as r) => cross p q + chain r
  | _ => 0
  end.
(** closed shoelace sum (twice the signed area) *)
Definition shoelace (l : list pt) : R := match l with [] => 0 | p :: _ => chain (l ++ [p]) end.
Definition psub (p s : pt) : pt := (fst p - fst s, snd p - snd s).
(** geometry.polygon_area *)
Definition poly_area (l : list pt) : R :=
  match l with [] => 0 | s :: _ => shoelace (map (fun p => psub p s) l) / 2 end.

Definition pmid (p q : pt) : pt := ((fst p + fst q) / 2, (snd p + snd q) / 2).

(** ** vertices of table entries *)
Inductive vtx := Corner (i : nat) | Mid (i j : nat) | Centre.
Definition child := list vtx.
Definition entry := list child.
(** transition_column: nn -> (nrefined, irange) -> children *)
Definition ttable := list (nat * list ((nat * nat) * entry)).
(** decompose_column special cases: (nn, number of straight nodes, distance d if tested) *)
(** StartAfterGapIf ds: as StartAfterGap, but the subdivision is used only if the nodes at
    start + d (d in ds) are straight too; otherwise triangulate_column (the fan) *)
Inductive start_rule := StraightFirst | StartAfterGap | StartAfterGapIf (ds : list nat).
Definition dtable := list ((nat * nat * option nat) * start_rule * entry).

Definition origin : pt := (0, 0).
Definition corner (cs : list pt) (istart i : nat) : pt := nth ((istart + i) mod (length cs)) cs origin.
Definition vpos (cs : list pt) (c : pt) (istart : nat) (v : vtx) : pt :=
  match v with
  | Corner i => corner cs istart i
  | Mid i j => pmid (corner cs istart i) (corner cs istart j)
  | Centre => c
  end.
Fixpoint rsum (l : list R) : R := match l with [] => 0 | x :: r => x + rsum r end.
Definition child_area cs c istart (ch : child) : R := poly_area (map (vpos cs c istart) ch).
Definition children_area cs c istart (e : entry) : R := rsum (map (child_area cs c istart) e).

(** the obligation of one table entry: for every real position of the corners and of the
    centre and every rotation, the children's signed areas add up to the parent's *)
Definition entry_area_ok (nn : nat) (e : entry) : Prop :=
  forall cs c istart, length cs = nn -> (istart < nn)%nat ->
    children_area cs c istart e = poly_area cs.
Definition table_area_ok (t : ttable) : Prop :=
  forall nn ents key e, In (nn, ents) t -> In (key, e) ents -> entry_area_ok nn e.
Definition dtable_area_ok (t : dtable) : Prop :=
  forall nn ns d rule e, In ((nn, ns, d), rule, e) t -> entry_area_ok nn e.

(** ** strictly convex counter-clockwise parents, interior centre *)
Definition tri (a b c : pt) : R := poly_area [a; b; c].
Definition convex_ccw (cs : list pt) : Prop :=
  Forall (fun i => 0 < tri (corner cs i 0) (corner cs i 1) (corner cs i 2)) (seq 0 (length cs)).
Definition interior (cs : list pt) (c : pt) : Prop :=
  Forall (fun i => 0 < tri (corner cs i 0) (corner cs i 1) c) (seq 0 (length cs)).
Definition entry_pos_ok (nn : nat) (e : entry) : Prop :=
  forall cs c istart, length cs = nn -> (istart < nn)%nat -> convex_ccw cs -> interior cs c ->
    Forall (fun ch => 0 < child_area cs c istart ch) e.
Definition table_pos_ok (t : ttable) : Prop :=
  forall nn ents key e, In (nn, ents) t -> In (key, e) ents -> entry_pos_ok nn e.

(** ** tactics for the generated per-entry obligations *)
Ltac destruct_len cs H :=
  repeat (destruct cs as [|[? ?] cs]; [discriminate H|]); destruct cs; [|discriminate H]; clear H.
Ltac crunch := cbv -[Rplus Rmult Rminus Rdiv Ropp Rinv IZR R0 R1 Rlt Rle Rgt Rge].
Ltac crunch_in H := cbv -[Rplus Rmult Rminus Rdiv Ropp Rinv IZR R0 R1 Rlt Rle Rgt Rge] in H.
Ltac each_rotation istart tac :=
  repeat (destruct istart as [|istart]; [tac|try (exfalso; lia)]).
Ltac entry_area_tac :=
  let cs := fresh "cs" in let istart := fresh "istart" in let H := fresh "H" in let Hi := fresh "Hi" in
  intros cs [? ?] istart H Hi; destruct_len cs H;
  each_rotation istart ltac:(crunch; field).
Ltac forall_inv_all :=
  repeat match goal with
         | H : Forall _ (_ :: _) |- _ => let a := fresh "P" in let b := fresh "F" in
                                        apply Forall_cons_iff in H; destruct H as [a b]
         | H : Forall _ [] |- _ => clear H
         end.
Ltac entry_pos_tac :=
  let cs := fresh "cs" in let istart := fresh "istart" in let H := fresh "H" in let Hi := fresh "Hi" in
  let Hc := fresh "Hc" in let Hin := fresh "Hin" in
  intros cs [? ?] istart H Hi Hc Hin; destruct_len cs H;
  crunch_in Hc; crunch_in Hin; forall_inv_all;
  each_rotation istart ltac:(crunch; repeat (apply Forall_cons; [lra|]); apply Forall_nil).

(** closes [table_area_ok tbl] / [table_pos_ok tbl] from the per-entry lemmas in the context *)
Ltac split_ins :=
  repeat match goal with
         | H : In _ (_ :: _) |- _ => destruct H as [H|H]
         | H : In _ [] |- _ => destruct H
         | H : (_, _) = (_, _) |- _ => inversion H; clear H; subst
         end.

(** ** translation invariance of the shoelace sum *)
Lemma cross_sub p q s : cross (psub p s) (psub q s) = cross p q - cross p s + cross q s.
Proof. unfold cross, psub; cbn [fst snd]; ring. Qed.

Fixpoint lastp (p : pt) (r : list pt) : pt := match r with [] => p | q :: r' => lastp q r' end.
Lemma lastp_app p r q : lastp p (r ++ [q]) = q.
Proof. revert p; induction r as [|a r IH]; intro p; cbn [app lastp]; auto. Qed.

Lemma chain_shift s p r :
  chain (map (fun p => psub p s) (p :: r)) = chain (p :: r) - cross p s + cross (lastp p r) s.
Proof.
  revert p; induction r as [|q r IH]; intro p.
  - cbn [map chain lastp]. ring.
  - specialize (IH q). cbn [map] in IH |- *.
    change (chain (psub p s :: psub q s :: map (fun p0 => psub p0 s) r))
      with (cross (psub p s) (psub q s) + chain (psub q s :: map (fun p0 => psub p0 s) r)).
    change (chain (p :: q :: r)) with (cross p q + chain (q :: r)).
    rewrite IH, cross_sub. cbn [lastp]. ring.
Qed.

Lemma shoelace_shift s l : shoelace (map (fun p => psub p s) l) = shoelace l.
Proof.
  destruct l as [|p r]; [reflexivity|].
  unfold shoelace. cbn [map].
  change (psub p s :: map (fun p0 => psub p0 s) r) with (map (fun p0 => psub p0 s) (p :: r)).
  change [psub p s] with (map (fun p0 => psub p0 s) [p]).
  rewrite <- map_app. cbn [app].
  rewrite chain_shift, lastp_app. ring.
Qed.

(** polygon_area's shift by the first vertex does not change the value *)
Lemma poly_area_shoelace l : poly_area l = shoelace l / 2.
Proof. destruct l as [|p r]; unfold poly_area; [cbn [shoelace]; lra|]. now rewrite shoelace_shift. Qed.
