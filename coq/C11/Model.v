(** C11 -- hand-written executable model (H) of how refine() / decompose_column() /
    triangulate_column() / subdivide_column() use the generated tables, plus an exact
    rational copy of the plane geometry for the extracted driver.  No proofs that depend on
    the generated data live here (so the driver still builds when an obligation breaks). *)
From Coq Require Import List Arith Bool ZArith QArith Lia.
From P Require Import Geom Comb.
From Gen Require Import GenRefine.
Import ListNotations.
Open Scope nat_scope.

(** ** refine(): one column with [nn] nodes whose refined sides are [sides]
      nrefined, istart, irange = transition_type(nn, refined_sides)
      for subcol in transition_column[nn][nrefined, irange]: ...  (istart + vert) % nn ... *)
Definition refine_children (nn : nat) (sides : list nat) : option (nat * entry) :=
  match gen_transition_type (Z.of_nat nn) (map Z.of_nat sides) with
  | Some (nref, istart, irange) =>
      if ((0 <=? nref) && (0 <=? istart) && (0 <=? irange))%Z then
        match lookup_entry transition_column nn (Z.to_nat nref) (Z.to_nat irange) with
        | Some e => Some (Z.to_nat istart, e)
        | None => None                      (* KeyError *)
        end
      else None
  | None => None                            (* TypeError: cannot unpack None *)
  end.
(** refine() creates a centre node exactly under this condition *)
Definition centre_created (nn : nat) (nref irange : Z) : bool :=
  (nn =? 4) && ((nref =? 4)%Z || ((nref =? 2)%Z && (irange =? 1)%Z)).

(** one (nn, refined side set) case: the key exists, istart is a valid index, the entry rotated
    by istart is a proper subdivision splitting exactly the refined sides, and it uses the
    centre node iff refine() created one *)
Definition tt_case_ok (nn : nat) (sides : list nat) : bool :=
  match gen_transition_type (Z.of_nat nn) (map Z.of_nat sides) with
  | Some (nref, istart, irange) =>
      ((0 <=? nref) && (0 <=? istart) && (istart <? Z.of_nat nn) && (0 <=? irange))%Z &&
      match lookup_entry transition_column nn (Z.to_nat nref) (Z.to_nat irange) with
      | Some e => subdivision_ok nn (Z.to_nat istart) sides e
                  && Bool.eqb (uses_centre e) (centre_created nn nref irange)
      | None => false
      end
  | None => false
  end.
Definition nonempty_side_sets (nn : nat) : list (list nat) :=
  filter (fun s => match s with [] => false | _ => true end) (sublists (seq 0 nn)).
Definition tt_all_ok : bool := forallb (fun nn => forallb (tt_case_ok nn) (nonempty_side_sets nn)) [3; 4].

(** ** triangulate_column(): the fan, subdivide_column(column_name, 0, fan) *)
Definition fan (n : nat) : entry := map (gen_fan_child n) (seq 0 n).

(** ** decompose_column() *)
Definition index_minus (nn i d : nat) : nat := if i <? d then i + nn - d else i - d.
Definition index_dist (nn i1 i2 : nat) : nat :=
  let d := Nat.max i1 i2 - Nat.min i1 i2 in if nn <? 2 * d then nn - d else d.
Definition opt_nat_eqb (a b : option nat) : bool :=
  match a, b with Some x, Some y => x =? y | None, None => true | _, _ => false end.
Fixpoint assoc_d (nn ns : nat) (d : option nat) (t : dtable) : option (start_rule * entry) :=
  match t with
  | [] => None
  | ((nn', ns', d'), rule, e) :: r =>
      if (nn =? nn') && (ns =? ns') && opt_nat_eqb d d' then Some (rule, e) else assoc_d nn ns d r
  end.
Definition has_d_entries (nn ns : nat) (t : dtable) : bool :=
  existsb (fun x => match x with ((nn', ns', d'), _, _) =>
                      (nn =? nn') && (ns =? ns') && match d' with Some _ => true | None => false end end) t.
Inductive dres := DKeep | DRaise | DSub (start : nat) (e : entry).
(** start = [s for s, l in zip(straight, last2) if l not in straight][0]
    with last2 = [col.index_minus(i, 2) for i in straight] *)
Definition start_after_gap (nn : nat) (straight : list nat) : option nat :=
  hd_error (filter (fun s => negb (nmem (index_minus nn s 2) straight)) straight).
Definition apply_rule (nn : nat) (straight : list nat) (re : start_rule * entry) : dres :=
  let (rule, e) := re in
  match rule with
  | StraightFirst => match hd_error straight with Some s => DSub s e | None => DRaise end     (* IndexError *)
  | StartAfterGap => match start_after_gap nn straight with Some s => DSub s e | None => DRaise end
  | StartAfterGapIf ds =>
      (* if all([col.index_plus(start, d) in straight for d in ds]): subdivide  else: triangulate_column *)
      match start_after_gap nn straight with
      | Some s => if forallb (fun d => nmem ((s + d) mod nn) straight) ds then DSub s e else DSub 0 (fan nn)
      | None => DRaise
      end
  end.
Lemma apply_rule_cases nn straight re start e :
  apply_rule nn straight re = DSub start e -> e = snd re \/ (start = 0 /\ e = fan nn).
Proof.
  destruct re as [rule e']. unfold apply_rule. cbn [snd]. destruct rule.
  - destruct (hd_error straight); [|discriminate]. intro H; inversion H; auto.
  - destruct (start_after_gap nn straight); [|discriminate]. intro H; inversion H; auto.
  - destruct (start_after_gap nn straight); [|discriminate].
    destruct (forallb _ ds); intro H; inversion H; auto.
Qed.
Definition decompose_model (nn : nat) (straight : list nat) : dres :=
  if nn <=? 4 then DKeep
  else if nn <=? 8 then
    let ns := length straight in
    match assoc_d nn ns None decompose_table with
    | Some re => apply_rule nn straight re
    | None =>
        if has_d_entries nn ns decompose_table then
          match straight with
          | s0 :: s1 :: _ =>
              match assoc_d nn ns (Some (index_dist nn s0 s1)) decompose_table with
              | Some re => apply_rule nn straight re
              | None => DSub 0 (fan nn)
              end
          | _ => DRaise
          end
        else DSub 0 (fan nn)
    end
  else DSub 0 (fan nn).

(** is the (7,3) special case guarded by the test that the straight nodes alternate? (read from the AST) *)
Definition d73_guarded : bool :=
  existsb (fun x => match x with
                    | ((nn, ns, None), StartAfterGapIf _, _) => (nn =? 7) && (ns =? 3)
                    | _ => false end) decompose_table.

(** a decomposition entry, rotated by any start, keeps the parent's boundary unsplit *)
Definition dtable_boundary_ok (t : dtable) : bool :=
  forallb (fun x => match x with ((nn, _, _), _, e) =>
             forallb (fun start => subdivision_ok nn start [] e) (seq 0 nn) end) t.
Definition fan_boundary_ok (nmax : nat) : bool :=
  forallb (fun n => subdivision_ok n 0 [] (fan n)) (seq 3 (nmax - 2)).

(** ** split_column(colname, nodename): a quadrilateral split at local node i0
      i = [(i0 + j) % nn for j in range(nn)]
      col2 = column(colname2, node = [col.node[i[2]], col.node[i[3]], col.node[i[0]]], surface = col.surface)
      del col.node[i[3]]              (the old column keeps i0, i1, i2 in their cyclic order) *)
Definition split_entry : entry := gen_split_entry.      (* regenerated from split_column's AST *)
Definition split_model (nn i0 : nat) : option (nat * entry) :=
  if (nn =? 4) && (i0 <? 4) then Some (i0, split_entry) else None.      (* returns False otherwise *)
Definition split_boundary_ok : bool := forallb (fun i0 => subdivision_ok 4 i0 [] split_entry) (seq 0 4).

(** ** surfaces: every new column is created with  surface = col.surface  (refine, subdivide_column,
    split_column's col2; split_column's shrunk column keeps its own attribute).  [None] = no surface set *)
Definition subdivide_cols {S : Type} (surface : S) (e : entry) : list (child * S) := map (fun ch => (ch, surface)) e.
Lemma surface_inherited_ {S : Type} (s : S) (e : entry) x : In x (subdivide_cols s e) -> snd x = s /\ In (fst x) e.
Proof. unfold subdivide_cols. intro H. apply in_map_iff in H. destruct H as [ch [<- Hc]]. auto. Qed.
Lemma subdivide_cols_children {S : Type} (s : S) (e : entry) : map fst (subdivide_cols s e) = e.
Proof. unfold subdivide_cols. rewrite map_map. cbn [fst]. apply map_id. Qed.

(** the boundary left by a subdivision is duplicate-free for every side set of 3- and 4-gons
    and for the unsplit 5..8-gons (needed to turn set equality into equality of sums) *)
Definition expected_nodup_ok : bool :=
  forallb (fun nn => forallb (fun s => enodup (expected_boundary nn s)) (sublists (seq 0 nn))) [3; 4]
  && forallb (fun nn => enodup (expected_boundary nn [])) (seq 3 14).

(** ** exact rational geometry for the driver (same definitions as Geom.v, over Q) *)
Open Scope Q_scope.
Definition qpt := (Q * Q)%type.
Definition qcross (p q : qpt) : Q := fst p * snd q - fst q * snd p.
Fixpoint qchain (l : list qpt) : Q :=
  match l with
  | p :: ((q :: _) as r) => qcross p q + qchain r
  | _ => 0
  end.
Definition qshoelace (l : list qpt) : Q := match l with [] => 0 | p :: _ => qchain (l ++ [p]) end.
Definition qsub (p s : qpt) : qpt := (fst p - fst s, snd p - snd s).
Definition qpoly_area (l : list qpt) : Q :=
  match l with [] => 0 | s :: _ => qshoelace (map (fun p => qsub p s) l) / 2 end.
Definition qmid (p q : qpt) : qpt := ((fst p + fst q) / 2, (snd p + snd q) / 2).
Definition qcorner (cs : list qpt) (istart i : nat) : qpt := nth ((istart + i) mod (length cs)) cs (0, 0).
Definition qvpos (cs : list qpt) (c : qpt) (istart : nat) (v : vtx) : qpt :=
  match v with
  | Corner i => qcorner cs istart i
  | Mid i j => qmid (qcorner cs istart i) (qcorner cs istart j)
  | Centre => c
  end.
(** geometry.polygon_centroid *)
Fixpoint qcen_acc (l : list qpt) (acc : Q * Q * Q) : Q * Q * Q :=
  match l with
  | p :: ((q :: _) as r) =>
      let t := qcross p q in
      let '(a, cx, cy) := acc in
      qcen_acc r (a + t, cx + (fst p + fst q) * t, cy + (snd p + snd q) * t)
  | _ => acc
  end.
Definition qcentroid (l : list qpt) : qpt :=
  match l with
  | [] => (0, 0)
  | s :: _ =>
      let sh := map (fun p => qsub p s) l in
      let '(a, cx, cy) := qcen_acc (sh ++ [qsub s s]) (0, 0, 0) in
      let area := a * (1 # 2) in
      (cx / (6 * area) + fst s, cy / (6 * area) + snd s)
  end.

(** split_column: centre of the shrunk column afterwards.  [gen_split_recentre] is read from the AST:
    true iff `col.centre = col.centroid` runs unconditionally after `del col.node[...]`; otherwise
    the old quadrilateral's centre may survive (columns with a specified centre) *)
Definition qsplit_kept (cs : list qpt) (c : qpt) (i0 : nat) : list qpt := map (qvpos cs c i0) (nth 0 split_entry []).
Definition qsplit_new_centre (c_old : qpt) (kept : list qpt) : qpt := if gen_split_recentre then qcentroid kept else c_old.
