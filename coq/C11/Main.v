(** C11 -- the theorems about the tables regenerated from mulgrids.py (Gen/*.v). *)
From Coq Require Import List Arith Bool ZArith Reals Lra Lia.
From P Require Import Geom Comb.
From Gen Require Import GenRefine GenArea GenPos GenDecomp.
From P Require Import Model Conform.
Import ListNotations.
Open Scope nat_scope.

(** ** every (nn, non-empty refined-side set) case of refine() *)
Lemma tt_all_ok_true : tt_all_ok = true.
Proof. vm_compute. reflexivity. Qed.

Lemma transition_type_total_ nn sides :
  nn = 3 \/ nn = 4 -> is_side_set nn sides = true -> sides <> [] -> tt_case_ok nn sides = true.
Proof.
  intros Hnn Hs Hne.
  pose proof tt_all_ok_true as H. unfold tt_all_ok in H. rewrite forallb_forall in H.
  assert (Hin : In nn [3; 4]) by (cbn [In]; destruct Hnn; auto).
  specialize (H nn Hin). rewrite forallb_forall in H. apply H.
  unfold nonempty_side_sets. apply filter_In. split; [apply side_set_enumerated; auto|].
  destruct sides; [congruence|reflexivity].
Qed.

(** what [tt_case_ok] gives, unpacked *)
Lemma tt_case_ok_children nn sides :
  tt_case_ok nn sides = true ->
  exists istart e key, refine_children nn sides = Some (istart, e) /\ istart < nn /\
    (exists ents, In (nn, ents) transition_column /\ In (key, e) ents) /\
    subdivision_ok nn istart sides e = true.
Proof.
  unfold tt_case_ok, refine_children.
  destruct (gen_transition_type (Z.of_nat nn) (map Z.of_nat sides)) as [[[nref istart] irange]|]; [|discriminate].
  rewrite !andb_true_iff. intros [[[[H1 H2] H3] H4] H5].
  rewrite H1, H2, H4. cbn [andb].
  destruct (lookup_entry transition_column nn (Z.to_nat nref) (Z.to_nat irange)) as [e|] eqn:E; [|discriminate].
  apply andb_true_iff in H5. destruct H5 as [H5 _].
  exists (Z.to_nat istart), e, (Z.to_nat nref, Z.to_nat irange). split; [reflexivity|]. split.
  - apply Z.ltb_lt in H3. apply Z.leb_le in H2. lia.
  - split; [apply lookup_entry_In; auto|auto].
Qed.

(** refining one column: whatever the non-empty set of refined sides, refine() finds a table
    entry, the entry's children add up to the parent's signed area for every position of the
    corners and of the centre node, and they split exactly the refined sides *)
Lemma refine_column_area_ (cs : list pt) (c : pt) (sides : list nat) :
  length cs = 3 \/ length cs = 4 -> is_side_set (length cs) sides = true -> sides <> [] ->
  exists istart e, refine_children (length cs) sides = Some (istart, e) /\
    children_area cs c istart e = poly_area cs /\
    subdivision_ok (length cs) istart sides e = true.
Proof.
  intros Hnn Hs Hne.
  destruct (tt_case_ok_children _ _ (transition_type_total_ _ _ Hnn Hs Hne)) as (istart & e & key & Hr & Hlt & (ents & Hi1 & Hi2) & Hsub).
  exists istart, e. split; [auto|]. split; [|auto].
  apply (transition_table_area_gen _ _ _ _ Hi1 Hi2); auto.
Qed.

Lemma refine_column_positive_ (cs : list pt) (c : pt) (sides : list nat) :
  length cs = 3 \/ length cs = 4 -> is_side_set (length cs) sides = true -> sides <> [] ->
  convex_ccw cs -> interior cs c ->
  exists istart e, refine_children (length cs) sides = Some (istart, e) /\
    Forall (fun ch => (0 < child_area cs c istart ch)%R) e.
Proof.
  intros Hnn Hs Hne Hc Hi.
  destruct (tt_case_ok_children _ _ (transition_type_total_ _ _ Hnn Hs Hne)) as (istart & e & key & Hr & Hlt & (ents & Hi1 & Hi2) & Hsub).
  exists istart, e. split; [auto|].
  apply (transition_table_pos_gen _ _ _ _ Hi1 Hi2); auto.
Qed.

(** conformity of one column in global node names: for whatever sidenodes dict (predicate sn on
    unordered name pairs) leaves at least one side of a 3/4-node column refined, refine() finds an
    entry whose boundary (interior edges cancelled) is, side by side, the unsplit side or the
    side split at the mid-side node of its unordered name pair *)
Lemma refine_boundary_named_ (sn : nat * nat -> bool) (col : list nat) (cid : nat) :
  length col = 3 \/ length col = 4 -> refined_sides sn col <> [] ->
  exists istart e, refine_children (length col) (refined_sides sn col) = Some (istart, e) /\
    eseteq (boundary (all_edges (length col) istart e)) (expected_boundary (length col) (refined_sides sn col)) = true /\
    map (gname_edge col cid) (expected_boundary (length col) (refined_sides sn col)) = flat_map (gside sn col) (seq 0 (length col)).
Proof.
  intros Hnn Hne.
  destruct (tt_case_ok_children _ _ (transition_type_total_ _ _ Hnn (refined_sides_is_side_set sn col) Hne))
    as (istart & e & key & Hr & Hlt & _ & Hsub).
  exists istart, e. split; [auto|]. split; [|apply expected_boundary_named_].
  unfold subdivision_ok in Hsub. apply andb_true_iff in Hsub. destruct Hsub as [_ H]. exact H.
Qed.

(** non-vacuity of the convexity hypotheses: the unit square with its centre, a triangle *)
Example ex_convex_square :
  convex_ccw [(0, 0); (1, 0); (1, 1); (0, 1)]%R /\ interior [(0, 0); (1, 0); (1, 1); (0, 1)]%R (1 / 2, 1 / 2)%R.
Proof. split; crunch; repeat (apply Forall_cons; [lra|]); apply Forall_nil. Qed.
Example ex_convex_triangle :
  convex_ccw [(0, 0); (2, 0); (0, 1)]%R /\ interior [(0, 0); (2, 0); (0, 1)]%R (1 / 2, 1 / 4)%R.
Proof. split; crunch; repeat (apply Forall_cons; [lra|]); apply Forall_nil. Qed.
Example ex_side_set : is_side_set 4 [0; 3] = true /\ refine_children 4 [0; 3] <> None.
Proof. split; [reflexivity|vm_compute; discriminate]. Qed.

(** ** decomposition tables: boundary kept, for every rotation *)
Lemma dtable_boundary_ok_true : dtable_boundary_ok decompose_table = true.
Proof. vm_compute. reflexivity. Qed.
Lemma decompose_entry_boundary_ nn ns d rule e start :
  In ((nn, ns, d), rule, e) decompose_table -> start < nn -> subdivision_ok nn start [] e = true.
Proof.
  intros Hin Hlt. pose proof dtable_boundary_ok_true as H. unfold dtable_boundary_ok in H.
  rewrite forallb_forall in H. specialize (H _ Hin). cbn beta iota in H.
  rewrite forallb_forall in H. apply H. apply in_seq. lia.
Qed.
Lemma fan_boundary_16 : fan_boundary_ok 16 = true.
Proof. vm_compute. reflexivity. Qed.
Lemma fan_boundary_ n : 3 <= n <= 16 -> subdivision_ok n 0 [] (fan n) = true.
Proof.
  intro Hn. pose proof fan_boundary_16 as H. unfold fan_boundary_ok in H. rewrite forallb_forall in H.
  apply H. apply in_seq. lia.
Qed.

(** ** triangulate_column: the fan conserves the signed area for any number of nodes *)
Open Scope R_scope.
Definition tri3 (c a b : pt) : R := (cross a b + cross b c - cross a c) / 2.
Lemma tri_eq a b c : tri a b c = tri3 c a b.
Proof. destruct a, b, c. unfold tri, tri3. crunch. field. Qed.

Fixpoint pairsum (g : pt -> pt -> R) (l : list pt) : R :=
  match l with
  | a :: ((b :: _) as r) => g a b + pairsum g r
  | _ => 0
  end.
Lemma pairsum_seq g d : forall L,
  rsum (map (fun i => g (nth i L d) (nth (S i) L d)) (seq 0 (pred (length L)))) = pairsum g L.
Proof.
  induction L as [|a [|b r] IH]; [reflexivity|reflexivity|].
  change (pred (length (a :: b :: r))) with (S (pred (length (b :: r)))).
  cbn [seq map rsum]. rewrite <- seq_shift, map_map.
  change (pairsum g (a :: b :: r)) with (g a b + pairsum g (b :: r)). rewrite <- IH.
  cbn [nth]. reflexivity.
Qed.
Lemma pairsum_tri c : forall r p,
  pairsum (tri3 c) (p :: r) = (chain (p :: r) + cross (lastp p r) c - cross p c) / 2.
Proof.
  induction r as [|q r IH]; intro p.
  - cbn [pairsum chain lastp]. field.
  - change (pairsum (tri3 c) (p :: q :: r)) with (tri3 c p q + pairsum (tri3 c) (q :: r)).
    change (chain (p :: q :: r)) with (cross p q + chain (q :: r)).
    rewrite IH. cbn [lastp]. unfold tri3. field.
Qed.

Lemma gen_fan_child_shape n i : gen_fan_child n i = [Corner i; Corner ((i + 1) mod n); Centre].
Proof. reflexivity. Qed.

Lemma triangulate_fan_area_ (cs : list pt) (c : pt) :
  children_area cs c 0 (fan (length cs)) = poly_area cs.
Proof.
  destruct cs as [|p0 r] eqn:Ecs; [reflexivity|]. rewrite <- Ecs.
  set (n := length cs). set (L := cs ++ [p0]).
  assert (Hn : (0 < n)%nat) by (unfold n; rewrite Ecs; cbn [length]; lia).
  unfold children_area, fan. rewrite map_map.
  rewrite (map_ext_in _ (fun i => tri3 c (nth i L origin) (nth (S i) L origin))).
  - replace n with (pred (length L)) by (unfold L; rewrite app_length; cbn [length]; fold n; lia).
    rewrite pairsum_seq. unfold L. rewrite Ecs. cbn [app].
    rewrite pairsum_tri, lastp_app, poly_area_shoelace. unfold shoelace. cbn [app]. field.
  - intros i Hi. apply in_seq in Hi. rewrite gen_fan_child_shape.
    unfold child_area. cbn [map vpos]. fold (tri (corner cs 0 i) (corner cs 0 ((i + 1) mod n)) c).
    rewrite tri_eq. unfold corner. fold n. cbn [Nat.add].
    rewrite (Nat.mod_small i n) by lia. rewrite Nat.mod_mod by lia.
    f_equal.
    + unfold L. rewrite app_nth1; auto. fold n. lia.
    + destruct (Nat.eq_dec (i + 1) n) as [E|E].
      * rewrite E, Nat.mod_same by lia. unfold L. rewrite app_nth2 by (fold n; lia).
        fold n. replace (S i - n)%nat with 0%nat by lia. rewrite Ecs. reflexivity.
      * rewrite Nat.mod_small by lia. unfold L. rewrite app_nth1 by (fold n; lia). f_equal. lia.
Qed.

(** decompose_column as a whole: whatever the straight nodes are, the subdivision it chooses
    conserves the signed area for all real coordinates *)
Lemma assoc_d_In nn ns d t re : assoc_d nn ns d t = Some re -> exists d', In ((nn, ns, d'), fst re, snd re) t.
Proof.
  induction t as [|[[[[nn' ns'] d'] rule] e] r IH]; cbn [assoc_d]; [discriminate|].
  destruct ((nn =? nn')%nat && (ns =? ns')%nat && opt_nat_eqb d d') eqn:E.
  - apply andb_true_iff in E. destruct E as [E _]. apply andb_true_iff in E. destruct E as [E1 E2].
    apply Nat.eqb_eq in E1, E2. subst. intro H; inversion H; subst. exists d'. left. reflexivity.
  - intro H. destruct (IH H) as [d'' Hd]. exists d''. right. auto.
Qed.
Lemma apply_rule_area nn straight re start e (cs : list pt) c :
  (exists d, In ((nn, length straight, d), fst re, snd re) decompose_table) ->
  apply_rule nn straight re = DSub start e -> length cs = nn -> (start < nn)%nat ->
  children_area cs c start e = poly_area cs.
Proof.
  intros [d Hin] Ha Hl Hs. destruct (apply_rule_cases _ _ _ _ _ Ha) as [->|[-> ->]].
  - apply (decompose_table_area_gen _ _ _ _ _ Hin); auto.
  - subst nn. apply triangulate_fan_area_.
Qed.
Lemma decompose_column_area_ (cs : list pt) (c : pt) (straight : list nat) start e :
  decompose_model (length cs) straight = DSub start e -> (start < length cs)%nat ->
  children_area cs c start e = poly_area cs.
Proof.
  unfold decompose_model. set (nn := length cs).
  destruct (nn <=? 4)%nat; [discriminate|].
  assert (Hfan : DSub 0 (fan nn) = DSub start e -> children_area cs c start e = poly_area cs).
  { intro H. inversion H; subst. apply triangulate_fan_area_. }
  destruct (nn <=? 8)%nat; [|intros H _; auto].
  destruct (assoc_d nn (length straight) None decompose_table) as [re|] eqn:E1.
  - intros H Hs. eapply apply_rule_area; eauto. eapply assoc_d_In; eauto.
  - destruct (has_d_entries nn (length straight) decompose_table); [|intros H _; auto].
    destruct straight as [|s0 [|s1 r]]; try discriminate.
    destruct (assoc_d nn (length (s0 :: s1 :: r)) (Some (index_dist nn s0 s1)) decompose_table) as [re|] eqn:E2; [|intros H _; auto].
    intros H Hs. eapply apply_rule_area; eauto. eapply assoc_d_In; eauto.
Qed.
