(** C11 -- combinatorics of a subdivision: which directed edges the children of a table entry
    have, which of them cancel (an edge used by two children in opposite directions is
    interior) and what is left on the parent's boundary.  Also the handful of Python
    operations the translated [transition_type] uses. *)
From Coq Require Import List Arith Bool ZArith Lia.
From P Require Import Geom.
Import ListNotations.

(** ** resolved vertices: corner k of the parent, mid-side node of the side {k,l}, centre *)
Inductive rvtx := RC (k : nat) | RM (k l : nat) | RCen.
Definition rvtx_eqb (a b : rvtx) : bool :=
  match a, b with
  | RC k, RC k' => k =? k'
  | RM k l, RM k' l' => (k =? k') && (l =? l')
  | RCen, RCen => true
  | _, _ => false
  end.
Lemma rvtx_eqb_eq a b : rvtx_eqb a b = true <-> a = b.
Proof.
  destruct a, b; cbn [rvtx_eqb]; rewrite ?andb_true_iff, ?Nat.eqb_eq; split; intro H;
    try discriminate; try (inversion H; subst; auto); try (destruct H; subst; auto).
Qed.
(** the way refine()/subdivide_column() turn a table vertex into a node of column [col]
    with [nn] nodes:  col.node[(istart + i) % nn];  the mid-side node is looked up by the
    *unordered* pair of corner names, hence the normalisation by min/max *)
Definition resolve (nn istart : nat) (v : vtx) : rvtx :=
  match v with
  | Corner i => RC ((istart + i) mod nn)
  | Mid i j => let a := (istart + i) mod nn in let b := (istart + j) mod nn in RM (Nat.min a b) (Nat.max a b)
  | Centre => RCen
  end.

Definition edge := (rvtx * rvtx)%type.
Definition edge_eqb (e f : edge) : bool := rvtx_eqb (fst e) (fst f) && rvtx_eqb (snd e) (snd f).
Definition eswap (e : edge) : edge := (snd e, fst e).
Definition emem (e : edge) (l : list edge) : bool := existsb (edge_eqb e) l.
Fixpoint pairs_from (first : rvtx) (l : list rvtx) : list edge :=
  match l with
  | [] => []
  | [a] => [(a, first)]
  | a :: ((b :: _) as r) => (a, b) :: pairs_from first r
  end.
Definition cyc_edges (l : list rvtx) : list edge := match l with [] => [] | a :: _ => pairs_from a l end.
Definition all_edges (nn istart : nat) (e : entry) : list edge :=
  flat_map (fun ch => cyc_edges (map (resolve nn istart) ch)) e.
Definition boundary (es : list edge) : list edge := filter (fun e => negb (emem (eswap e) es)) es.
Fixpoint enodup (l : list edge) : bool :=
  match l with [] => true | e :: r => negb (emem e r) && enodup r end.
Definition esubset (a b : list edge) : bool := forallb (fun e => emem e b) a.
Definition eseteq (a b : list edge) : bool := esubset a b && esubset b a.

Definition nmem (i : nat) (l : list nat) : bool := existsb (Nat.eqb i) l.
Definition side_mid (nn i : nat) : rvtx := let j := (i + 1) mod nn in RM (Nat.min i j) (Nat.max i j).
(** what must remain on the boundary of a parent with [nn] sides of which [sides] are refined:
    side i = (corner i -> corner i+1), split at its mid-side node iff i is refined *)
Definition side_part (nn : nat) (sides : list nat) (i : nat) : list edge :=
  let j := (i + 1) mod nn in
  if nmem i sides then [(RC i, side_mid nn i); (side_mid nn i, RC j)] else [(RC i, RC j)].
Definition expected_boundary (nn : nat) (sides : list nat) : list edge :=
  flat_map (side_part nn sides) (seq 0 nn).
(** every mid-side node used is one that exists: the mid-point of a *refined side* *)
Definition mid_ok (nn : nat) (sides : list nat) (v : rvtx) : bool :=
  match v with
  | RM k l => existsb (fun i => nmem i sides && rvtx_eqb (side_mid nn i) (RM k l)) (seq 0 nn)
  | RC k => k <? nn
  | RCen => true
  end.
Definition uses_centre (e : entry) : bool :=
  existsb (fun ch => existsb (fun v => match v with Centre => true | _ => false end) ch) e.
(** an entry, rotated by istart, is a proper subdivision of a parent whose refined sides are
    [sides]: every child has >= 3 vertices, every vertex exists, no directed edge is used twice,
    and after cancelling the interior edges exactly the expected boundary is left *)
Definition subdivision_ok (nn istart : nat) (sides : list nat) (e : entry) : bool :=
  forallb (fun ch => (3 <=? length ch) && forallb (fun v => mid_ok nn sides (resolve nn istart v)) ch) e
  && enodup (all_edges nn istart e)
  && eseteq (boundary (all_edges nn istart e)) (expected_boundary nn sides).

(** ** table look-up as in  transition_column[nn][nrefined, irange] *)
Fixpoint assoc_nat {A} (k : nat) (l : list (nat * A)) : option A :=
  match l with [] => None | (k', a) :: r => if k =? k' then Some a else assoc_nat k r end.
Fixpoint assoc_key {A} (k : nat * nat) (l : list ((nat * nat) * A)) : option A :=
  match l with
  | [] => None
  | (k', a) :: r => if (fst k =? fst k') && (snd k =? snd k') then Some a else assoc_key k r
  end.
Definition lookup_entry (t : ttable) (nn nref irange : nat) : option entry :=
  match assoc_nat nn t with Some ents => assoc_key (nref, irange) ents | None => None end.
Lemma assoc_nat_In {A} k (l : list (nat * A)) a : assoc_nat k l = Some a -> In (k, a) l.
Proof.
  induction l as [|[k' a'] r IH]; cbn [assoc_nat]; [discriminate|].
  destruct (k =? k') eqn:E; [apply Nat.eqb_eq in E; subst; intro H; inversion H; left; auto|right; auto].
Qed.
Lemma assoc_key_In {A} k (l : list ((nat * nat) * A)) a : assoc_key k l = Some a -> In (k, a) l.
Proof.
  induction l as [|[k' a'] r IH]; cbn [assoc_key]; [discriminate|].
  destruct ((fst k =? fst k') && (snd k =? snd k')) eqn:E; [|right; auto].
  apply andb_true_iff in E; destruct E as [E1 E2]; apply Nat.eqb_eq in E1, E2.
  destruct k, k'; cbn [fst snd] in *; subst. intro H; inversion H; left; auto.
Qed.
Lemma lookup_entry_In t nn nref irange e :
  lookup_entry t nn nref irange = Some e -> exists ents, In (nn, ents) t /\ In ((nref, irange), e) ents.
Proof.
  unfold lookup_entry. destruct (assoc_nat nn t) as [ents|] eqn:E; [|discriminate].
  intro H. exists ents. split; [apply assoc_nat_In; auto|apply assoc_key_In; auto].
Qed.

(** ** sets of refined sides: strictly increasing lists of side indices below nn, as
    refine() builds them (for i, corner in enumerate(col.node): ... refined_sides.append(i)) *)
Fixpoint inc_from (k : nat) (l : list nat) : bool :=
  match l with [] => true | a :: r => (k <=? a) && inc_from (S a) r end.
Definition is_side_set (nn : nat) (sides : list nat) : bool :=
  inc_from 0 sides && forallb (fun a => a <? nn) sides.
Fixpoint sublists (l : list nat) : list (list nat) :=
  match l with [] => [[]] | x :: r => map (cons x) (sublists r) ++ sublists r end.
Lemma nil_in_sublists l : In [] (sublists l).
Proof. induction l; cbn [sublists]; [left; auto|apply in_or_app; right; auto]. Qed.
Lemma inc_from_weaken k k' l : (k' <= k)%nat -> inc_from k l = true -> inc_from k' l = true.
Proof.
  destruct l; cbn [inc_from]; auto. rewrite !andb_true_iff, !Nat.leb_le. intros ? [? ?]; split; auto; lia.
Qed.
Lemma side_set_in_sublists n : forall k sides,
  inc_from k sides = true -> forallb (fun a => a <? k + n) sides = true -> In sides (sublists (seq k n)).
Proof.
  induction n as [|n IH]; intros k sides Hi Hb.
  - destruct sides as [|a r]; [left; auto|]. cbn [inc_from forallb] in *.
    apply andb_true_iff in Hi, Hb. destruct Hi as [Hi _], Hb as [Hb _].
    apply Nat.leb_le in Hi. apply Nat.ltb_lt in Hb. lia.
  - destruct sides as [|a r]; [apply nil_in_sublists|]. cbn [seq sublists].
    pose proof Hi as Hi0. pose proof Hb as Hb0.
    cbn [inc_from forallb] in Hi, Hb. apply andb_true_iff in Hi, Hb. destruct Hi as [Hk Hr], Hb as [Ha Hb].
    apply Nat.leb_le in Hk. apply in_or_app.
    destruct (Nat.eq_dec a k) as [->|Hne].
    + left. apply in_map. apply IH; auto.
      rewrite forallb_forall in *. intros x Hx. specialize (Hb x Hx). apply Nat.ltb_lt in Hb. apply Nat.ltb_lt. lia.
    + right. apply IH.
      * cbn [inc_from]. apply andb_true_iff; split; auto. apply Nat.leb_le; lia.
      * rewrite forallb_forall in *. intros x Hx. specialize (Hb0 x Hx). apply Nat.ltb_lt in Hb0. apply Nat.ltb_lt. lia.
Qed.
Lemma side_set_enumerated nn sides : is_side_set nn sides = true -> In sides (sublists (seq 0 nn)).
Proof. unfold is_side_set. rewrite andb_true_iff. intros [A B]. apply side_set_in_sublists; auto. Qed.

(** ** the Python operations used by transition_type (integers are Z, lists are list Z;
    [None] stands for an exception or for falling off the function, which makes the
    tuple assignment in refine() raise) *)
Open Scope Z_scope.
Definition py_len (l : list Z) : Z := Z.of_nat (length l).
Definition py_range (n : Z) : list Z := map Z.of_nat (seq 0 (Z.to_nat n)).
Definition zmem (x : Z) (l : list Z) : bool := existsb (Z.eqb x) l.
(** list(set(a) - set(b)) for a duplicate-free ascending [a] of small non-negative ints:
    CPython iterates such a set in ascending order *)
Definition py_setdiff_list (a b : list Z) : list Z := filter (fun x => negb (zmem x b)) a.
Definition py_index (l : list Z) (i : Z) : option Z :=
  if i <? 0 then (if 0 <=? py_len l + i then nth_error l (Z.to_nat (py_len l + i)) else None)
  else nth_error l (Z.to_nat i).
Definition obind {A B} (o : option A) (f : A -> option B) : option B := match o with Some a => f a | None => None end.
Definition olift2 {A B C} (f : A -> B -> C) (a : option A) (b : option B) : option C :=
  obind a (fun x => obind b (fun y => Some (f x y))).
Definition py_mod (a b : Z) : option Z := if b =? 0 then None else Some (a mod b).
Definition omod (a b : option Z) : option Z := obind a (fun x => obind b (fun y => py_mod x y)).
Definition oand (a b : option bool) : option bool := obind a (fun x => if x then b else Some false).
Definition oor (a b : option bool) : option bool := obind a (fun x => if x then Some true else b).
Definition ocond {A} (c : option bool) (t e : option A) : option A := obind c (fun x => if x then t else e).
Definition otuple3 (a b c : option Z) : option (Z * Z * Z) :=
  obind a (fun x => obind b (fun y => obind c (fun z => Some (x, y, z)))).
