(** C11 -- the default centre of a column (geometry.polygon_centroid, as column.centre is set when
    no centre is given) meets the hypotheses [interior] and [centre_ok] of the tiling theorems
    for every strictly convex counter-clockwise triangle and quadrilateral. *)
From Coq Require Import List Reals Lra Lia Psatz.
From P Require Import Geom Cross.
Import ListNotations.
Open Scope R_scope.

(** geometry.polygon_centroid: shift by the first vertex, accumulate the shoelace terms *)
Fixpoint cen_acc (l : list pt) (acc : R * R * R) : R * R * R :=
  match l with
  | p :: ((q :: _) as r) =>
      let t := cross p q in
      let '(a, cx, cy) := acc in
      cen_acc r (a + t, cx + (fst p + fst q) * t, cy + (snd p + snd q) * t)
  | _ => acc
  end.
Definition rcentroid (l : list pt) : pt :=
  match l with
  | [] => (0, 0)
  | s :: _ =>
      let sh := map (fun p => psub p s) l in
      let '(a, cx, cy) := cen_acc (sh ++ [psub s s]) (0, 0, 0) in
      let area := a / 2 in
      (cx / (6 * area) + fst s, cy / (6 * area) + snd s)
  end.

Lemma tri_scaled (P Q : pt) ax ay X Y D : 0 < D ->
  0 < D * (2 * tri P Q (ax, ay)) + cross (psub Q P) (X, Y) ->
  0 < tri P Q (X / D + ax, Y / D + ay).
Proof.
  intros HD H.
  assert (E : tri P Q (X / D + ax, Y / D + ay) = (D * (2 * tri P Q (ax, ay)) + cross (psub Q P) (X, Y)) / (2 * D)).
  { destruct P, Q. unfold tri, poly_area, shoelace, chain, cross, psub. cbn [map app fst snd]. field. lra. }
  rewrite E. apply Rdiv_lt_0_compat; lra.
Qed.

Lemma tri_rot (a b c : pt) : tri a b c = tri c a b.
Proof. destruct a, b, c. unfold tri. crunch. field. Qed.
Ltac cbv_keep_tri := cbv -[Rplus Rmult Rminus Rdiv Ropp Rinv IZR R0 R1 Rlt Rle Rgt Rge tri].
Theorem centroid_ok_quad (a b c d : pt) : convex_ccw [a; b; c; d] ->
  interior [a; b; c; d] (rcentroid [a; b; c; d]) /\ centre_ok [a; b; c; d] (rcentroid [a; b; c; d]).
Proof.
  destruct a as [ax ay], b as [bx b_y], c as [cx cy], d as [dx dy]. intro Hc.
  crunch_in Hc. forall_inv_all.
  split; unfold interior, centre_ok; cbn [length seq Nat.sub]; repeat (apply Forall_cons; [|]); try apply Forall_nil; cbv beta.
  all: cbv_keep_tri.
  all: first [apply tri_scaled | rewrite tri_rot; apply tri_scaled]; [lra | crunch; nra].
Qed.
Theorem centroid_ok_tri (a b c : pt) : convex_ccw [a; b; c] ->
  interior [a; b; c] (rcentroid [a; b; c]) /\ centre_ok [a; b; c] (rcentroid [a; b; c]).
Proof.
  destruct a as [ax ay], b as [bx b_y], c as [cx cy]. intro Hc.
  crunch_in Hc. forall_inv_all.
  split; unfold interior, centre_ok; cbn [length seq Nat.sub]; repeat (apply Forall_cons; [|]); try apply Forall_nil; cbv beta.
  all: cbv_keep_tri.
  all: first [apply tri_scaled | rewrite tri_rot; apply tri_scaled]; [lra | crunch; nra].
Qed.
