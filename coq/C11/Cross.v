(** C11 -- signed crossing numbers: the point-in-polygon test the property text needs
    ("every point of the original domain lies in exactly one new column").

    [cr a b p] is the signed crossing of the ray from [p] in the +x direction by the directed
    edge a -> b with the usual half-open rule (an edge counts when it goes from  y <= p.y  to
    y > p.y  or back), [wn l p] the sum over the closed polygon [l]: the winding number of [l]
    about [p].  It is antisymmetric in the edge and additive when an edge is split at its
    mid-point, for ALL real coordinates and ALL points p (including points on edges and
    vertices) -- which is what makes the interior edges of a subdivision cancel (Tiling.v).
    For positively oriented triangles and strictly convex counter-clockwise quadrilaterals
    it takes the values 0 and 1 only, is 1 strictly inside and 0 strictly outside. *)
From Coq Require Import List Reals Lra Lia ZArith Psatz.
From P Require Import Geom.
Import ListNotations.
Open Scope R_scope.

(** twice the signed area of the triangle a b p *)
Definition orient (a b p : pt) : R :=
  (fst b - fst a) * (snd p - snd a) - (fst p - fst a) * (snd b - snd a).
Lemma tri_orient a b p : tri a b p = orient a b p / 2.
Proof. destruct a, b, p. unfold tri, orient. crunch. field. Qed.
Lemma orient_swap a b p : orient b a p = - orient a b p.
Proof. unfold orient. ring. Qed.
Lemma orient_rot a b p : orient a b p = orient b p a.
Proof. unfold orient. ring. Qed.

Definition below (v p : pt) : bool := if Rle_dec (snd v) (snd p) then true else false.
Definition cr (a b p : pt) : Z :=
  if below a p
  then (if below b p then 0 else if Rlt_dec 0 (orient a b p) then 1 else 0)%Z
  else (if below b p then (if Rlt_dec (orient a b p) 0 then -1 else 0) else 0)%Z.

Fixpoint zsum (l : list Z) : Z := match l with [] => 0%Z | x :: r => (x + zsum r)%Z end.
Fixpoint cpairs {A} (first : A) (l : list A) : list (A * A) :=
  match l with
  | [] => []
  | [a] => [(a, first)]
  | a :: ((b :: _) as r) => (a, b) :: cpairs first r
  end.
Definition cyc {A} (l : list A) : list (A * A) := match l with [] => [] | a :: _ => cpairs a l end.
Definition cre (p : pt) (e : pt * pt) : Z := cr (fst e) (snd e) p.
Definition wn (l : list pt) (p : pt) : Z := zsum (map (cre p) (cyc l)).

Lemma zsum_app a b : zsum (a ++ b) = (zsum a + zsum b)%Z.
Proof. induction a as [|x a IH]; cbn [app zsum]; [reflexivity|rewrite IH; ring]. Qed.
Lemma cpairs_map {A B} (f : A -> B) first l :
  cpairs (f first) (map f l) = map (fun e => (f (fst e), f (snd e))) (cpairs first l).
Proof.
  induction l as [|a [|b r] IH]; [reflexivity|reflexivity|].
  change (map f (a :: b :: r)) with (f a :: f b :: map f r).
  change (cpairs (f first) (f a :: f b :: map f r)) with ((f a, f b) :: cpairs (f first) (map f (b :: r))).
  rewrite IH. reflexivity.
Qed.
Lemma cyc_map {A B} (f : A -> B) l : cyc (map f l) = map (fun e => (f (fst e), f (snd e))) (cyc l).
Proof. destruct l as [|a r]; [reflexivity|]. unfold cyc. cbn [map]. change (f a :: map f r) with (map f (a :: r)). apply cpairs_map. Qed.

(** ** the two facts that make interior edges cancel and split sides add up *)
Lemma cr_swap a b p : cr b a p = (- cr a b p)%Z.
Proof.
  unfold cr. rewrite (orient_swap a b p).
  destruct (below a p), (below b p); try reflexivity.
  - destruct (Rlt_dec 0 (orient a b p)), (Rlt_dec (- orient a b p) 0); try reflexivity; exfalso; lra.
  - destruct (Rlt_dec 0 (- orient a b p)), (Rlt_dec (orient a b p) 0); try reflexivity; exfalso; lra.
Qed.
Lemma cr_self a p : cr a a p = 0%Z.
Proof. unfold cr. destruct (below a p); reflexivity. Qed.

Lemma orient_mid_l a b p : orient a (pmid a b) p = orient a b p / 2.
Proof. unfold orient, pmid; cbn [fst snd]. field. Qed.
Lemma orient_mid_r a b p : orient (pmid a b) b p = orient a b p / 2.
Proof. unfold orient, pmid; cbn [fst snd]. field. Qed.
(** a side split at its mid-point: the two halves count exactly as the whole *)
Lemma cr_split a b p : (cr a (pmid a b) p + cr (pmid a b) b p)%Z = cr a b p.
Proof.
  unfold cr. rewrite orient_mid_l, orient_mid_r. unfold below, pmid; cbn [fst snd].
  destruct (Rle_dec (snd a) (snd p)), (Rle_dec (snd b) (snd p)), (Rle_dec ((snd a + snd b) / 2) (snd p));
    try (exfalso; lra);
    destruct (Rlt_dec 0 (orient a b p / 2)), (Rlt_dec 0 (orient a b p)), (Rlt_dec (orient a b p / 2) 0), (Rlt_dec (orient a b p) 0);
    try reflexivity; exfalso; lra.
Qed.

(** ** triangles *)
Ltac cases_tac :=
  unfold wn, cyc, cpairs, cre, cr, below; cbn [map zsum fst snd];
  repeat match goal with |- context [Rle_dec ?x ?y] => destruct (Rle_dec x y) end;
  repeat match goal with |- context [Rlt_dec ?x ?y] => destruct (Rlt_dec x y) end.

Lemma inside_not_all_below ax ay bx b_y cx cy px py :
  0 < (bx - ax) * (py - ay) - (px - ax) * (b_y - ay) ->
  0 < (cx - bx) * (py - b_y) - (px - bx) * (cy - b_y) ->
  0 < (ax - cx) * (py - cy) - (px - cx) * (ay - cy) ->
  ay <= py -> b_y <= py -> cy <= py -> False.
Proof.
  intros H1 H2 H3 A B C.
  set (u1 := (bx - ax) * (py - ay) - (px - ax) * (b_y - ay)) in *.
  set (u2 := (cx - bx) * (py - b_y) - (px - bx) * (cy - b_y)) in *.
  set (u3 := (ax - cx) * (py - cy) - (px - cx) * (ay - cy)) in *.
  assert (E : u2 * (py - ay) + u3 * (py - b_y) + u1 * (py - cy) = 0) by (unfold u1, u2, u3; ring).
  assert (E1 : 0 <= u2 * (py - ay)) by (apply Rmult_le_pos; lra).
  assert (E2 : 0 <= u3 * (py - b_y)) by (apply Rmult_le_pos; lra).
  assert (E3 : 0 <= u1 * (py - cy)) by (apply Rmult_le_pos; lra).
  assert (Z1 : u2 * (py - ay) = 0) by lra.
  assert (Z2 : u3 * (py - b_y) = 0) by lra.
  assert (Z3 : u1 * (py - cy) = 0) by lra.
  apply Rmult_integral in Z1, Z2, Z3.
  destruct Z1 as [Z1|Z1]; [lra|]. destruct Z2 as [Z2|Z2]; [lra|]. destruct Z3 as [Z3|Z3]; [lra|].
  assert (ay = py) by lra. assert (b_y = py) by lra. subst ay b_y.
  unfold u1 in H1. nra.
Qed.

Lemma tri_wn_01 a b c p : 0 < orient a b c -> wn [a; b; c] p = 0%Z \/ wn [a; b; c] p = 1%Z.
Proof.
  destruct a as [ax ay], b as [bx b_y], c as [cx cy], p as [px py]. unfold orient; cbn [fst snd]. intro H.
  cases_tac; unfold orient in *; cbn [fst snd] in *; first [left; reflexivity | right; reflexivity | exfalso; nra].
Qed.
Lemma tri_wn_in a b c p : 0 < orient a b p -> 0 < orient b c p -> 0 < orient c a p -> wn [a; b; c] p = 1%Z.
Proof.
  destruct a as [ax ay], b as [bx b_y], c as [cx cy], p as [px py]. unfold orient; cbn [fst snd]. intros H1 H2 H3.
  cases_tac; unfold orient in *; cbn [fst snd] in *;
    first [reflexivity | exfalso; nra | exfalso; eapply inside_not_all_below; eassumption].
Qed.
Lemma tri_wn_out_ab a b c p : 0 < orient a b c -> orient a b p < 0 -> wn [a; b; c] p = 0%Z.
Proof.
  destruct a as [ax ay], b as [bx b_y], c as [cx cy], p as [px py]. unfold orient; cbn [fst snd]. intros H H1.
  cases_tac; unfold orient in *; cbn [fst snd] in *; first [reflexivity | exfalso; nra].
Qed.
Lemma wn3_rot a b c p : wn [b; c; a] p = wn [a; b; c] p.
Proof. unfold wn, cyc, cpairs, cre; cbn [map zsum fst snd]. ring. Qed.
Lemma tri_wn_out a b c p : 0 < orient a b c ->
  orient a b p < 0 \/ orient b c p < 0 \/ orient c a p < 0 -> wn [a; b; c] p = 0%Z.
Proof.
  intros H [G|[G|G]].
  - apply tri_wn_out_ab; auto.
  - rewrite <- wn3_rot. apply tri_wn_out_ab; auto. rewrite <- orient_rot. auto.
  - rewrite <- wn3_rot, <- wn3_rot. apply tri_wn_out_ab; auto. rewrite orient_rot. auto.
Qed.

(** ** strictly convex counter-clockwise quadrilaterals *)
Definition convex4 (a b c d : pt) : Prop :=
  0 < orient a b c /\ 0 < orient b c d /\ 0 < orient c d a /\ 0 < orient d a b.
Lemma convex4_rot a b c d : convex4 a b c d -> convex4 b c d a.
Proof. unfold convex4. tauto. Qed.
Lemma wn4_rot a b c d p : wn [b; c; d; a] p = wn [a; b; c; d] p.
Proof. unfold wn, cyc, cpairs, cre; cbn [map zsum fst snd]. ring. Qed.

Lemma quad_wn_01 a b c d p : convex4 a b c d -> wn [a; b; c; d] p = 0%Z \/ wn [a; b; c; d] p = 1%Z.
Proof.
  destruct a as [ax ay], b as [bx b_y], c as [cx cy], d as [dx dy], p as [px py].
  intros (H1 & H2 & H3 & H4).
  cases_tac; unfold orient in *; cbn [fst snd] in *; first [left; reflexivity | right; reflexivity | exfalso; nra].
Qed.
(** orientation w.r.t. any line is affine: non-negative at the corners of a positively oriented
    triangle, hence non-negative on the closed triangle *)
Lemma in_closed_tri_orient a c d x y p : 0 < orient a c d ->
  0 <= orient a c p -> 0 <= orient c d p -> 0 <= orient d a p ->
  0 <= orient x y a -> 0 <= orient x y c -> 0 <= orient x y d -> 0 <= orient x y p.
Proof.
  intros D P1 P2 P3 Q1 Q2 Q3.
  assert (E : orient a c d * orient x y p =
              orient c d p * orient x y a + orient d a p * orient x y c + orient a c p * orient x y d)
    by (unfold orient; ring).
  assert (0 <= orient c d p * orient x y a) by (apply Rmult_le_pos; auto).
  assert (0 <= orient d a p * orient x y c) by (apply Rmult_le_pos; auto).
  assert (0 <= orient a c p * orient x y d) by (apply Rmult_le_pos; auto).
  assert (G : 0 <= orient a c d * orient x y p) by lra.
  destruct (Rle_dec 0 (orient x y p)) as [|N]; auto. exfalso.
  assert (orient a c d * orient x y p < 0); [|lra].
  replace (orient a c d * orient x y p) with (- (orient a c d * (- orient x y p))) by ring.
  assert (0 < orient a c d * (- orient x y p)) by (apply Rmult_lt_0_compat; lra). lra.
Qed.
Lemma wn4_split a b c d p : wn [a; b; c; d] p = (wn [a; b; c] p + wn [a; c; d] p)%Z.
Proof. unfold wn, cyc, cpairs, cre; cbn [map zsum fst snd]. rewrite (cr_swap a c p). ring. Qed.
Lemma orient_rot2 a b p : orient a b p = orient p a b.
Proof. unfold orient. ring. Qed.
Lemma quad_wn_out_ab a b c d p : convex4 a b c d -> orient a b p < 0 -> wn [a; b; c; d] p = 0%Z.
Proof.
  intros (H1 & H2 & H3 & H4) H. rewrite wn4_split, (tri_wn_out_ab a b c p H1 H). cbn [Z.add].
  assert (D : 0 < orient a c d) by (unfold orient in *; lra).
  destruct (Rlt_dec (orient a c p) 0) as [L1|L1]; [apply tri_wn_out; auto|].
  destruct (Rlt_dec (orient c d p) 0) as [L2|L2]; [apply tri_wn_out; auto|].
  destruct (Rlt_dec (orient d a p) 0) as [L3|L3]; [apply tri_wn_out; auto|].
  exfalso. apply (Rlt_not_le _ _ H).
  apply (in_closed_tri_orient a c d a b p D); try lra.
  all: unfold orient in *; lra.
Qed.
Lemma quad_wn_out_bc a b c d p : convex4 a b c d -> orient b c p < 0 -> wn [a; b; c; d] p = 0%Z.
Proof.
  intros (H1 & H2 & H3 & H4) H. rewrite wn4_split.
  rewrite (tri_wn_out a b c p H1) by auto. cbn [Z.add].
  assert (D : 0 < orient a c d) by (unfold orient in *; lra).
  destruct (Rlt_dec (orient a c p) 0) as [L1|L1]; [apply tri_wn_out; auto|].
  destruct (Rlt_dec (orient c d p) 0) as [L2|L2]; [apply tri_wn_out; auto|].
  destruct (Rlt_dec (orient d a p) 0) as [L3|L3]; [apply tri_wn_out; auto|].
  exfalso. apply (Rlt_not_le _ _ H).
  apply (in_closed_tri_orient a c d b c p D); try lra.
  all: unfold orient in *; lra.
Qed.
Lemma quad_wn_out a b c d p : convex4 a b c d ->
  orient a b p < 0 \/ orient b c p < 0 \/ orient c d p < 0 \/ orient d a p < 0 -> wn [a; b; c; d] p = 0%Z.
Proof.
  intros H [G|[G|[G|G]]].
  - apply quad_wn_out_ab; auto.
  - apply quad_wn_out_bc; auto.
  - rewrite <- wn4_rot, <- wn4_rot. apply quad_wn_out_ab; auto. do 2 apply convex4_rot; auto.
  - rewrite <- wn4_rot, <- wn4_rot. apply quad_wn_out_bc; auto. do 2 apply convex4_rot; auto.
Qed.

Lemma pos_factor x y : 0 < x * y -> 0 <= y -> 0 < x.
Proof.
  intros H Hy. destruct (Rlt_dec 0 x) as [|N]; auto. exfalso.
  assert (0 <= (- x) * y) by (apply Rmult_le_pos; lra). lra.
Qed.
(** a point with all four edge orientations positive cannot have all vertices at or below it *)
Lemma quad_inside_not_all_below ax ay bx b_y cx cy dx dy px py :
  0 < (bx - ax) * (py - ay) - (px - ax) * (b_y - ay) ->
  0 < (cx - bx) * (py - b_y) - (px - bx) * (cy - b_y) ->
  0 < (dx - cx) * (py - cy) - (px - cx) * (dy - cy) ->
  0 < (ax - dx) * (py - dy) - (px - dx) * (ay - dy) ->
  ay <= py -> b_y <= py -> cy <= py -> dy <= py -> False.
Proof.
  intros G1 G2 G3 G4 A B C D.
  set (uab := (bx - ax) * (py - ay) - (px - ax) * (b_y - ay)) in *.
  set (ubc := (cx - bx) * (py - b_y) - (px - bx) * (cy - b_y)) in *.
  set (ucd := (dx - cx) * (py - cy) - (px - cx) * (dy - cy)) in *.
  set (uda := (ax - dx) * (py - dy) - (px - dx) * (ay - dy)) in *.
  set (uca := (ax - cx) * (py - cy) - (px - cx) * (ay - cy)).
  assert (I1 : ubc * (py - ay) + uca * (py - b_y) + uab * (py - cy) = 0) by (unfold uab, ubc, uca; ring).
  assert (I2 : ucd * (py - ay) + uda * (py - cy) + (- uca) * (py - dy) = 0) by (unfold ucd, uda, uca; ring).
  assert (P1 : 0 <= ubc * (py - ay)) by (apply Rmult_le_pos; lra).
  assert (P2 : 0 <= uab * (py - cy)) by (apply Rmult_le_pos; lra).
  assert (P3 : 0 <= ucd * (py - ay)) by (apply Rmult_le_pos; lra).
  assert (P4 : 0 <= uda * (py - cy)) by (apply Rmult_le_pos; lra).
  destruct (Rle_dec 0 uca) as [Hc|Hc].
  - assert (P5 : 0 <= uca * (py - b_y)) by (apply Rmult_le_pos; lra).
    assert (Z1 : ubc * (py - ay) = 0) by lra. assert (Z2 : uab * (py - cy) = 0) by lra.
    apply Rmult_integral in Z1, Z2. destruct Z1 as [Z1|Z1]; [lra|]. destruct Z2 as [Z2|Z2]; [lra|].
    assert (ay = py) by lra. assert (cy = py) by lra. subst ay cy.
    unfold uab in G1. unfold uda in G4.
    assert (Q1 : 0 < (px - ax) * (py - b_y)) by lra.
    assert (Q2 : 0 < (ax - px) * (py - dy)) by lra.
    apply pos_factor in Q1; [|lra]. apply pos_factor in Q2; [|lra]. lra.
  - assert (P5 : 0 <= (- uca) * (py - dy)) by (apply Rmult_le_pos; lra).
    assert (Z1 : ucd * (py - ay) = 0) by lra. assert (Z2 : uda * (py - cy) = 0) by lra.
    assert (Z3 : (- uca) * (py - dy) = 0) by lra.
    apply Rmult_integral in Z1, Z2, Z3.
    destruct Z1 as [Z1|Z1]; [lra|]. destruct Z2 as [Z2|Z2]; [lra|]. destruct Z3 as [Z3|Z3]; [lra|].
    assert (ay = py) by lra. assert (cy = py) by lra. assert (dy = py) by lra. subst ay cy dy.
    unfold ucd in G3. lra.
Qed.
Lemma neg_factor x y : x * y < 0 -> 0 < y -> x < 0.
Proof.
  intros H Hy. destruct (Rlt_dec x 0) as [|N]; auto. exfalso.
  assert (0 <= x * y) by (apply Rmult_le_pos; lra). lra.
Qed.
Lemma quad_inside_not_all_above ax ay bx b_y cx cy dx dy px py :
  0 < (bx - ax) * (py - ay) - (px - ax) * (b_y - ay) ->
  0 < (cx - bx) * (py - b_y) - (px - bx) * (cy - b_y) ->
  0 < (dx - cx) * (py - cy) - (px - cx) * (dy - cy) ->
  0 < (ax - dx) * (py - dy) - (px - dx) * (ay - dy) ->
  ~ ay <= py -> ~ b_y <= py -> ~ cy <= py -> ~ dy <= py -> False.
Proof.
  intros G1 G2 G3 G4 A B C D.
  set (uab := (bx - ax) * (py - ay) - (px - ax) * (b_y - ay)) in *.
  set (ubc := (cx - bx) * (py - b_y) - (px - bx) * (cy - b_y)) in *.
  set (ucd := (dx - cx) * (py - cy) - (px - cx) * (dy - cy)) in *.
  set (uda := (ax - dx) * (py - dy) - (px - dx) * (ay - dy)) in *.
  set (uca := (ax - cx) * (py - cy) - (px - cx) * (ay - cy)).
  assert (I1 : ubc * (ay - py) + uca * (b_y - py) + uab * (cy - py) = 0) by (unfold uab, ubc, uca; ring).
  assert (I2 : ucd * (ay - py) + uda * (cy - py) + (- uca) * (dy - py) = 0) by (unfold ucd, uda, uca; ring).
  assert (P1 : 0 < ubc * (ay - py)) by (apply Rmult_lt_0_compat; lra).
  assert (P2 : 0 < uab * (cy - py)) by (apply Rmult_lt_0_compat; lra).
  assert (P3 : 0 < ucd * (ay - py)) by (apply Rmult_lt_0_compat; lra).
  assert (P4 : 0 < uda * (cy - py)) by (apply Rmult_lt_0_compat; lra).
  assert (N1 : uca * (b_y - py) < 0) by lra.
  assert (N2 : (- uca) * (dy - py) < 0) by lra.
  apply neg_factor in N1; [|lra]. apply neg_factor in N2; [|lra]. lra.
Qed.
Lemma quad_wn_in a b c d p : convex4 a b c d ->
  0 < orient a b p -> 0 < orient b c p -> 0 < orient c d p -> 0 < orient d a p -> wn [a; b; c; d] p = 1%Z.
Proof.
  destruct a as [ax ay], b as [bx b_y], c as [cx cy], d as [dx dy], p as [px py].
  unfold convex4, orient; cbn [fst snd]. intros (H1 & H2 & H3 & H4) G1 G2 G3 G4.
  cases_tac; unfold orient in *; cbn [fst snd] in *;
    first [reflexivity | exfalso; nra | exfalso; eapply quad_inside_not_all_below; eassumption
          | exfalso; eapply quad_inside_not_all_above; eassumption].
Qed.

(** ** polygons whose crossing number is an indicator: the new columns refine() makes *)
Definition good_poly (l : list pt) : Prop :=
  match l with
  | [a; b; c] => 0 < orient a b c
  | [a; b; c; d] => convex4 a b c d
  | _ => False
  end.
Lemma good_wn_01 l p : good_poly l -> wn l p = 0%Z \/ wn l p = 1%Z.
Proof.
  destruct l as [|a [|b [|c [|d [|x r]]]]]; cbn [good_poly]; try tauto.
  - apply tri_wn_01.
  - apply quad_wn_01.
Qed.
(** [p] strictly inside: every edge has p strictly on its left *)
Definition strictly_inside (l : list pt) (p : pt) : Prop := Forall (fun e => 0 < orient (fst e) (snd e) p) (cyc l).
Definition inside_closed (l : list pt) (p : pt) : Prop := Forall (fun e => 0 <= orient (fst e) (snd e) p) (cyc l).
Lemma good_inside_wn l p : good_poly l -> strictly_inside l p -> wn l p = 1%Z.
Proof.
  destruct l as [|a [|b [|c [|d [|x r]]]]]; cbn [good_poly]; try tauto; intros GP H;
    unfold strictly_inside, cyc, cpairs in H;
    repeat match goal with H : Forall _ (_ :: _) |- _ => let a := fresh "F" in let b := fresh "G" in
                                                       apply Forall_cons_iff in H; destruct H as [a b] end;
    cbn [fst snd] in *.
  - apply tri_wn_in; auto.
  - apply quad_wn_in; auto.
Qed.
Lemma good_wn_inside l p : good_poly l -> wn l p = 1%Z -> inside_closed l p.
Proof.
  destruct l as [|a [|b [|c [|d [|x r]]]]]; cbn [good_poly]; try tauto; intros G H;
    unfold inside_closed, cyc, cpairs; repeat apply Forall_cons; try apply Forall_nil; cbn [fst snd];
    apply Rnot_lt_le; intro L.
  1-3: rewrite tri_wn_out in H; auto; discriminate.
  all: rewrite quad_wn_out in H; auto; try discriminate; tauto.
Qed.

(** ** simple polygons: a positively oriented triangle, or a quadrilateral one of whose diagonals
    splits it into two positively oriented triangles (convex or with one reflex corner).  Their
    crossing number is still an indicator; this is what decompose_column's centre-based
    subdivisions produce whatever the position of the straight nodes. *)
Lemma quad_diag_online a b c d p : 0 < orient a b c -> 0 < orient a c d -> orient a c p = 0 ->
  wn [a; b; c; d] p = 0%Z \/ wn [a; b; c; d] p = 1%Z.
Proof.
  destruct a as [ax ay], b as [bx b_y], c as [cx cy], d as [dx dy], p as [px py].
  intros H1 H2 E.
  cases_tac; unfold orient in *; cbn [fst snd] in *; try first [left; reflexivity | right; reflexivity | exfalso; nra].
  exfalso. destruct (Rtotal_order cy ay) as [L|[L|L]];
    [nra|subst cy; assert (0 < b_y - ay) by lra; assert (0 < dy - ay) by lra; nra|nra].
Qed.
Lemma quad_diag_wn_01 a b c d p : 0 < orient a b c -> 0 < orient a c d ->
  wn [a; b; c; d] p = 0%Z \/ wn [a; b; c; d] p = 1%Z.
Proof.
  intros H1 H2. rewrite wn4_split.
  destruct (tri_wn_01 a b c p H1) as [E1|E1]; [rewrite E1; apply (tri_wn_01 a c d p H2)|].
  destruct (tri_wn_01 a c d p H2) as [E2|E2]; [rewrite E1, E2; right; reflexivity|].
  (* both triangles claim p: then p is on the diagonal *)
  rewrite <- wn4_split. apply quad_diag_online; auto.
  destruct (Rtotal_order (orient a c p) 0) as [L|[L|L]]; auto; exfalso.
  - rewrite (tri_wn_out a c d p H2) in E2 by auto. discriminate.
  - rewrite (tri_wn_out a b c p H1) in E1; [discriminate|]. right. right. rewrite orient_swap. lra.
Qed.
Definition simple_poly (l : list pt) : Prop :=
  match l with
  | [a; b; c] => 0 < orient a b c
  | [a; b; c; d] => (0 < orient a b c /\ 0 < orient a c d) \/ (0 < orient b c d /\ 0 < orient b d a)
  | _ => False
  end.
Lemma simple_wn_01 l p : simple_poly l -> wn l p = 0%Z \/ wn l p = 1%Z.
Proof.
  destruct l as [|a [|b [|c [|d [|x r]]]]]; cbn [simple_poly]; try tauto.
  - apply tri_wn_01.
  - intros [[H1 H2]|[H1 H2]]; [apply quad_diag_wn_01; auto|].
    rewrite <- wn4_rot. apply quad_diag_wn_01; auto.
Qed.
Lemma good_simple l : good_poly l -> simple_poly l.
Proof.
  destruct l as [|a [|b [|c [|d [|x r]]]]]; cbn [good_poly simple_poly]; try tauto.
  intros (H1 & H2 & H3 & H4). left. split; auto. unfold orient in *. lra.
Qed.
Definition children_simple cs c istart (e : entry) : Prop := Forall (fun ch => simple_poly (map (vpos cs c istart) ch)) e.
Definition all_centre (e : entry) : bool :=
  forallb (fun ch => existsb (fun v => match v with Centre => true | _ => false end) ch) e.
(** obligation of a decomposition entry all of whose children contain the centre node: every side
    of the parent has the centre strictly on its left -- nothing else, wherever the straight nodes are *)
Definition entry_simple_ok (nn : nat) (e : entry) : Prop :=
  forall cs c istart, length cs = nn -> (istart < nn)%nat -> interior cs c -> children_simple cs c istart e.
Ltac entry_simple_tac :=
  let cs := fresh "cs" in let istart := fresh "istart" in let H := fresh "H" in let Hi := fresh "Hi" in
  let Hin := fresh "Hin" in
  intros cs [? ?] istart H Hi Hin; destruct_len cs H; crunch_in Hin; forall_inv_all;
  each_rotation istart ltac:(crunch; repeat (apply Forall_cons; [first [lra | left; split; lra | right; split; lra]|]); apply Forall_nil).

(** ** the per-entry obligation: for a strictly convex counter-clockwise parent, a centre node
    strictly inside and (for the entries that put the centre node into a quadrilateral) beyond
    the lines joining the mid-points of adjacent sides, every child is a positively oriented
    triangle or a strictly convex counter-clockwise quadrilateral *)
Definition children_good cs c istart (e : entry) : Prop := Forall (fun ch => good_poly (map (vpos cs c istart) ch)) e.
Definition centre_ok (cs : list pt) (c : pt) : Prop :=
  Forall (fun i => 0 < tri (pmid (corner cs i 0) (corner cs i 1)) c (pmid (corner cs i 0) (corner cs i (length cs - 1))))
         (seq 0 (length cs)).
Definition entry_good_ok (nn : nat) (e : entry) : Prop :=
  forall cs c istart, length cs = nn -> (istart < nn)%nat -> convex_ccw cs -> interior cs c -> centre_ok cs c ->
    children_good cs c istart e.
Definition table_good_ok (t : ttable) : Prop :=
  forall nn ents key e, In (nn, ents) t -> In (key, e) ents -> entry_good_ok nn e.
Ltac entry_good_tac :=
  let cs := fresh "cs" in let istart := fresh "istart" in let H := fresh "H" in let Hi := fresh "Hi" in
  let Hc := fresh "Hc" in let Hin := fresh "Hin" in let Hce := fresh "Hce" in
  intros cs [? ?] istart H Hi Hc Hin Hce; destruct_len cs H;
  crunch_in Hc; crunch_in Hin; crunch_in Hce; forall_inv_all;
  each_rotation istart ltac:(crunch; repeat (apply Forall_cons; [repeat split; lra|]); apply Forall_nil).
Ltac split_good_tac :=
  let cs := fresh "cs" in let istart := fresh "istart" in let H := fresh "H" in let Hi := fresh "Hi" in
  let Hc := fresh "Hc" in
  intros cs [? ?] istart H Hi Hc; destruct_len cs H; crunch_in Hc; forall_inv_all;
  each_rotation istart ltac:(crunch; repeat (apply Forall_cons; [repeat split; lra|]); apply Forall_nil).
