(** C11 -- extraction of the executable model for the correspondence runs.
    One TAB-separated case per line; rationals are written  num/den . *)
From Coq Require Import Ascii String List Bool Arith ZArith QArith.
From PTBase Require Import Exn PyStr PyNum PyVal Wire.
From P Require Import Geom Comb.
From Gen Require Import GenRefine.
From P Require Import Model Volume.
Import ListNotations.
Open Scope char_scope.

Definition nonempty (l : list str) : list str := filter (fun s => match s with [] => false | _ => true end) l.
Definition nats_of (s : str) : list nat := map nat_of_str (nonempty (split_c "," s)).
Definition q_of_str (s : str) : Q :=
  match split_c "/" s with
  | [n; d] => Qmake (z_of_str n) (Z.to_pos (z_of_str d))
  | [n] => inject_Z (z_of_str n)
  | _ => 0%Q
  end.
Definition qs_of (s : str) : list Q := map q_of_str (nonempty (split_c " " s)).
Fixpoint pts_of (l : list Q) : list qpt :=
  match l with x :: y :: r => (x, y) :: pts_of r | _ => [] end.
Definition show_q (q : Q) : str := let r := Qred q in (show_z (Qnum r) ++ s2l "/" ++ show_z (Zpos (Qden r)))%list.
Definition show_pt (p : qpt) : str := (show_q (fst p) ++ s2l "," ++ show_q (snd p))%list.
Fixpoint join_with (sep : str) (l : list str) : str :=
  match l with [] => [] | [a] => a | a :: r => (a ++ sep ++ join_with sep r)%list end.
Definition show_children (cs : list qpt) (c : qpt) (start : nat) (cols : list (child * str)) : str :=
  (show_nat start ++ s2l "|" ++
   join_with (s2l ";")
     (map (fun x => let poly := map (qvpos cs c start) (fst x) in
                    (join_with (s2l " ") (map show_pt poly) ++ s2l ":" ++ show_q (qpoly_area poly) ++ s2l "@" ++ snd x)%list) cols))%list.
Definition show_nats (l : list nat) : str := join_with (s2l ",") (map show_nat l).

Definition run_case (line : str) : str :=
  match fields line with
  | [k; a; b] =>
      if str_eqb k (s2l "tt") then
        match gen_transition_type (Z.of_nat (nat_of_str a)) (map Z.of_nat (nats_of b)) with
        | Some (x, y, z) => (show_z x ++ s2l " " ++ show_z y ++ s2l " " ++ show_z z)%list
        | None => s2l "NONE"
        end
      else if str_eqb k (s2l "tk") then show_bool (tt_case_ok (nat_of_str a) (nats_of b))
      else if str_eqb k (s2l "dk") then
        (* decomposition entry number a, rotated by b: boundary kept? *)
        match nth_error decompose_table (nat_of_str a) with
        | Some ((nn, _, _), _, e) => show_bool (subdivision_ok nn (nat_of_str b) [] e)
        | None => s2l "BADCASE"
        end
      else s2l "BADCASE"
  | [k; a] =>
      if str_eqb k (s2l "cen") then show_pt (qcentroid (pts_of (qs_of a)))
      else if str_eqb k (s2l "area") then show_q (qpoly_area (pts_of (qs_of a)))
      else s2l "BADCASE"
  | [k; a; b; c; d; sf] =>
      (* sf = the parent's surface (an opaque token: the model only hands it on to the new columns) *)
      if str_eqb k (s2l "rf") then
        let cs := pts_of (qs_of c) in
        match pts_of (qs_of d), refine_children (nat_of_str a) (nats_of b) with
        | [cen], Some (istart, e) => show_children cs cen istart (subdivide_cols sf e)
        | _, _ => s2l "NONE"
        end
      else if str_eqb k (s2l "dc") then
        let cs := pts_of (qs_of c) in
        match pts_of (qs_of d), decompose_model (nat_of_str a) (nats_of b) with
        | [cen], DSub start e => show_children cs cen start (subdivide_cols sf e)
        | _, DKeep => s2l "KEEP"
        | _, _ => s2l "RAISE"
        end
      else if str_eqb k (s2l "sp") then
        let cs := pts_of (qs_of c) in
        match pts_of (qs_of d), split_model (nat_of_str a) (nat_of_str b) with
        | [cen], Some (i0, e) => show_children cs cen i0 (subdivide_cols sf e)
        | _, _ => s2l "FALSE"
        end
      else if str_eqb k (s2l "sc") then
        (* centre of the shrunk column after split_column (c = its centre before) *)
        let cs := pts_of (qs_of c) in
        match pts_of (qs_of d), split_model (nat_of_str a) (nat_of_str b) with
        | [cen], Some (i0, _) => show_pt (qsplit_new_centre cen (qsplit_kept cs cen i0))
        | _, _ => s2l "FALSE"
        end
      else if str_eqb k (s2l "tr") then
        let cs := pts_of (qs_of c) in
        match pts_of (qs_of d) with
        | [cen] => show_children cs cen 0 (subdivide_cols sf (fan (nat_of_str a)))
        | _ => s2l "NONE"
        end
      else s2l "BADCASE"
  | [k; a; b; c; d] =>
      if str_eqb k (s2l "vol") then
        match column_volume (q_of_str a) (qs_of b) (q_of_str c) (q_of_str d) with
        | Some v => show_q v
        | None => s2l "NONE"
        end
      else s2l "BADCASE"
  | [k; a; b; c] =>
      if str_eqb k (s2l "rl") then
        join_with (s2l " ") (map show_q (refine_ths (nat_of_str a) (map (fun x => Nat.eqb x 1) (nats_of b)) (qs_of c)))
      else s2l "BADCASE"
  | _ => s2l "BADCASE"
  end.

Require Extraction.
Require Import ExtrOcamlBasic ExtrOcamlString.
Extraction "Drv.ml" run_case.
