(** C11 -- property theorems only.  Each is closed by [exact] of a lemma proved in
    Main.v / Volume.v / Gen/*.v and followed by Print Assumptions.  The tables
    (transition_column, decompose_table, gen_fan_child, gen_transition_type) are the ones
    regenerated from the current mulgrids.py. *)
From Coq Require Import List Arith Bool ZArith QArith Reals.
From P Require Import Geom Comb.
From Gen Require Import GenRefine GenArea GenPos GenDecomp.
From P Require Import Model Volume Main.
Import ListNotations.
Open Scope nat_scope.

(** every entry of refine()'s transition_column table: for ALL real corner coordinates, ALL
    positions of the centre node and every rotation istart, the children's signed shoelace
    areas add up to the parent's *)
Theorem transition_table_area :
  forall nn ents key e, In (nn, ents) transition_column -> In (key, e) ents ->
  forall (cs : list pt) (c : pt) istart, length cs = nn -> istart < nn ->
    children_area cs c istart e = poly_area cs.
Proof. exact transition_table_area_gen. Qed.
Print Assumptions transition_table_area.

(** the same for the five special-case subdivisions of decompose_column *)
Theorem decompose_tables_area :
  forall nn ns d rule e, In ((nn, ns, d), rule, e) decompose_table ->
  forall (cs : list pt) (c : pt) start, length cs = nn -> start < nn ->
    children_area cs c start e = poly_area cs.
Proof. exact decompose_table_area_gen. Qed.
Print Assumptions decompose_tables_area.

(** triangulate_column's fan about the centre node, any number of nodes, any centre *)
Theorem triangulate_fan_area :
  forall (cs : list pt) (c : pt), children_area cs c 0 (fan (length cs)) = poly_area cs.
Proof. exact triangulate_fan_area_. Qed.
Print Assumptions triangulate_fan_area.

(** whichever branch decompose_column takes (special case or fan), area is conserved *)
Theorem decompose_column_area :
  forall (cs : list pt) (c : pt) (straight : list nat) start e,
  decompose_model (length cs) straight = DSub start e -> start < length cs ->
  children_area cs c start e = poly_area cs.
Proof. exact decompose_column_area_. Qed.
Print Assumptions decompose_column_area.

(** finite, bound in the statement: for nn in {3,4} and every non-empty set of refined sides
    (22 cases) transition_type returns a key present in the table and a valid istart; the
    entry rotated by istart uses only existing nodes, uses no directed edge twice, leaves
    after cancellation of interior edges exactly the parent's boundary with the refined
    sides -- and no other -- split at their mid-side nodes, and uses the centre node iff
    refine() creates one *)
Theorem transition_type_total :
  forall nn sides, nn = 3 \/ nn = 4 -> is_side_set nn sides = true -> sides <> [] ->
  tt_case_ok nn sides = true.
Proof. exact transition_type_total_. Qed.
Print Assumptions transition_type_total.

(** refining one 3- or 4-sided column conserves its signed area, for all reals *)
Theorem refine_column_area :
  forall (cs : list pt) (c : pt) (sides : list nat),
  length cs = 3 \/ length cs = 4 -> is_side_set (length cs) sides = true -> sides <> [] ->
  exists istart e, refine_children (length cs) sides = Some (istart, e) /\
    children_area cs c istart e = poly_area cs /\
    subdivision_ok (length cs) istart sides e = true.
Proof. exact refine_column_area_. Qed.
Print Assumptions refine_column_area.

(** strictly convex counter-clockwise parent, centre node strictly inside:
    every child has positive signed area *)
Theorem children_positive :
  forall (cs : list pt) (c : pt) (sides : list nat),
  length cs = 3 \/ length cs = 4 -> is_side_set (length cs) sides = true -> sides <> [] ->
  convex_ccw cs -> interior cs c ->
  exists istart e, refine_children (length cs) sides = Some (istart, e) /\
    Forall (fun ch => (0 < child_area cs c istart ch)%R) e.
Proof. exact refine_column_positive_. Qed.
Print Assumptions children_positive.

(** decomposition entries (every rotation) and the fan (3..16 nodes) keep the parent's
    boundary unsplit and use every interior edge exactly twice, in opposite directions *)
Theorem decompose_tables_boundary :
  forall nn ns d rule e start, In ((nn, ns, d), rule, e) decompose_table -> start < nn ->
  subdivision_ok nn start [] e = true.
Proof. exact decompose_entry_boundary_. Qed.
Print Assumptions decompose_tables_boundary.
Theorem triangulate_fan_boundary :
  forall n, 3 <= n <= 16 -> subdivision_ok n 0 [] (fan n) = true.
Proof. exact fan_boundary_. Qed.
Print Assumptions triangulate_fan_boundary.

(** volume (over Q): the rock volume of a column -- the sum of block_volume over its blocks
    -- depends only on area, surface and the bottom of the lowest layer *)
Theorem column_volume_telescopes :
  forall T ths A s, all_pos ths ->
  oeq (column_volume T ths A s) (match ths with [] => 0 | _ => pos_part (s - (T - qsum ths)) * A end)%Q.
Proof. exact column_volume_closed. Qed.
Print Assumptions column_volume_telescopes.

(** refine_layers: any layer selection, any factor >= 1, any surface elevation *)
Theorem refine_layers_volume :
  forall T ths sel factor A s v, all_pos ths -> 0 < factor ->
  column_volume T ths A s = Some v ->
  oeq (column_volume T (refine_ths factor sel ths) A s) v.
Proof. exact refine_layers_column_volume. Qed.
Print Assumptions refine_layers_volume.

(** children inherit the surface: volumes add up when areas do *)
Theorem column_volume_area_additive :
  forall T ths A1 A2 s v1 v2, all_pos ths ->
  column_volume T ths A1 s = Some v1 -> column_volume T ths A2 s = Some v2 ->
  oeq (column_volume T ths (A1 + A2) s) (v1 + v2)%Q.
Proof. exact column_volume_additive. Qed.
Print Assumptions column_volume_area_additive.
