(** C11 -- property theorems only.  Each is closed by [exact] of a lemma proved in
    Main.v / Volume.v / Gen/*.v and followed by Print Assumptions.  The tables
    (transition_column, decompose_table, gen_fan_child, gen_transition_type) are the ones
    regenerated from the current mulgrids.py. *)
From Coq Require Import List Arith Bool ZArith QArith Reals.
From P Require Import Geom Comb.
From Gen Require Import GenRefine GenArea GenPos GenDecomp.
From P Require Import Model Volume Conform Main Decomp73.
Import ListNotations.
Open Scope nat_scope.

(** every entry of refine()'s transition_column table: for ALL real corner coordinates, ALL
    positions of the centre node and every rotation istart, the children's signed shoelace
    areas add up to the parent's *)
Theorem transition_table_area :
  forall nn ents key e, In (nn, ents) transition_column -> In (key, e) ents ->
  forall (cs : list pt) (c : pt) istart, length cs = nn -> istart < nn ->
    children_area cs c istart e = poly_area cs.
Proof. exact transition_table_area_gen. Qed.
Print Assumptions transition_table_area.

(** the same for the five special-case subdivisions of decompose_column *)
Theorem decompose_tables_area :
  forall nn ns d rule e, In ((nn, ns, d), rule, e) decompose_table ->
  forall (cs : list pt) (c : pt) start, length cs = nn -> start < nn ->
    children_area cs c start e = poly_area cs.
Proof. exact decompose_table_area_gen. Qed.
Print Assumptions decompose_tables_area.

(** triangulate_column's fan about the centre node, any number of nodes, any centre *)
Theorem triangulate_fan_area :
  forall (cs : list pt) (c : pt), children_area cs c 0 (fan (length cs)) = poly_area cs.
Proof. exact triangulate_fan_area_. Qed.
Print Assumptions triangulate_fan_area.

(** whichever branch decompose_column takes (special case or fan), area is conserved *)
Theorem decompose_column_area :
  forall (cs : list pt) (c : pt) (straight : list nat) start e,
  decompose_model (length cs) straight = DSub start e -> start < length cs ->
  children_area cs c start e = poly_area cs.
Proof. exact decompose_column_area_. Qed.
Print Assumptions decompose_column_area.

(** finite, bound in the statement: for nn in {3,4} and every non-empty set of refined sides
    (22 cases) transition_type returns a key present in the table and a valid istart; the
    entry rotated by istart uses only existing nodes, uses no directed edge twice, leaves
    after cancellation of interior edges exactly the parent's boundary with the refined
    sides -- and no other -- split at their mid-side nodes, and uses the centre node iff
    refine() creates one *)
Theorem transition_type_total :
  forall nn sides, nn = 3 \/ nn = 4 -> is_side_set nn sides = true -> sides <> [] ->
  tt_case_ok nn sides = true.
Proof. exact transition_type_total_. Qed.
Print Assumptions transition_type_total.

(** refining one 3- or 4-sided column conserves its signed area, for all reals *)
Theorem refine_column_area :
  forall (cs : list pt) (c : pt) (sides : list nat),
  length cs = 3 \/ length cs = 4 -> is_side_set (length cs) sides = true -> sides <> [] ->
  exists istart e, refine_children (length cs) sides = Some (istart, e) /\
    children_area cs c istart e = poly_area cs /\
    subdivision_ok (length cs) istart sides e = true.
Proof. exact refine_column_area_. Qed.
Print Assumptions refine_column_area.

(** strictly convex counter-clockwise parent, centre node strictly inside:
    every child has positive signed area *)
Theorem children_positive :
  forall (cs : list pt) (c : pt) (sides : list nat),
  length cs = 3 \/ length cs = 4 -> is_side_set (length cs) sides = true -> sides <> [] ->
  convex_ccw cs -> interior cs c ->
  exists istart e, refine_children (length cs) sides = Some (istart, e) /\
    Forall (fun ch => (0 < child_area cs c istart ch)%R) e.
Proof. exact refine_column_positive_. Qed.
Print Assumptions children_positive.

(** conformity.  [sn] stands for the dict sidenodes (a predicate on unordered pairs of corner
    names); [refined_sides sn col] is the list refine() builds for column [col].
    (a) per column: the subdivision refine() chooses leaves, after cancelling interior edges,
        exactly the sides of the column, each unsplit or split at the mid-side node of its
        unordered name pair according to sn;
    (b) two columns sharing a side take the same decision and see the same edges reversed:
        no hanging node on a shared side. *)
Theorem refine_boundary_named :
  forall (sn : nat * nat -> bool) (col : list nat) (cid : nat),
  length col = 3 \/ length col = 4 -> refined_sides sn col <> [] ->
  exists istart e, refine_children (length col) (refined_sides sn col) = Some (istart, e) /\
    eseteq (boundary (all_edges (length col) istart e)) (expected_boundary (length col) (refined_sides sn col)) = true /\
    map (gname_edge col cid) (expected_boundary (length col) (refined_sides sn col)) = flat_map (gside sn col) (seq 0 (length col)).
Proof. exact refine_boundary_named_. Qed.
Print Assumptions refine_boundary_named.
Theorem refine_conforming :
  forall (sn : nat * nat -> bool) (A B : list nat) i j,
  i < length A -> j < length B ->
  node_at A i = node_at B ((j + 1) mod length B) ->
  node_at A ((i + 1) mod length A) = node_at B j ->
  nmem i (refined_sides sn A) = nmem j (refined_sides sn B) /\
  gside sn B j = map gswap (rev (gside sn A i)).
Proof. intros sn A B i j Hi Hj H1 H2. split; [exact (refine_same_decision_ sn A B i j Hi Hj H1 H2)|exact (refine_conforming_ sn A B i j H1 H2)]. Qed.
Print Assumptions refine_conforming.

(** decomposition entries (every rotation) and the fan (3..16 nodes) keep the parent's
    boundary unsplit and use every interior edge exactly twice, in opposite directions *)
Theorem decompose_tables_boundary :
  forall nn ns d rule e start, In ((nn, ns, d), rule, e) decompose_table -> start < nn ->
  subdivision_ok nn start [] e = true.
Proof. exact decompose_entry_boundary_. Qed.
Print Assumptions decompose_tables_boundary.
Theorem triangulate_fan_boundary :
  forall n, 3 <= n <= 16 -> subdivision_ok n 0 [] (fan n) = true.
Proof. exact fan_boundary_. Qed.
Print Assumptions triangulate_fan_boundary.

(** decompose_column's (7, 3) case.  [d73_guarded] is read from the AST: does the source test that
    the three straight nodes alternate from the start node before using the special subdivision
    (proposed repair C11-7gon-3straight-adjacent) or not (as upstream).  WITHOUT the guard the
    faithful model refutes positivity/conformity: a weakly convex heptagon whose straight nodes
    are exactly [straight] (three of them, two adjacent) for which the chosen subdivision has a
    child of zero area -- the witness (0,0),(1,0),(3,0),(4,0),(4,4),(2,4),(0,4) is the one replayed on
    the implementation (finding decompose_columns:7gon-3straight-adjacent).  WITH the guard every
    set of three straight nodes either alternates or gets the triangulation fan (which tiles:
    decompose_centre_cases_tile), and the witness gets the fan. *)
Theorem decompose_7_3_refuted : d73_guarded = false ->
  exists (cs : list pt) (c : pt) (straight : list nat) (start : nat) (e : entry) (ch : child),
    length cs = 7 /\ weakly_convex_ccw cs /\ (0 < poly_area cs)%R /\
    (forall i, i < 7 -> (In i straight <-> straight_at cs i)) /\
    decompose_model 7 straight = DSub start e /\ In ch e /\ child_area cs c start ch = 0%R.
Proof. exact decompose_7_3_refuted_. Qed.
Print Assumptions decompose_7_3_refuted.
Theorem decompose_7_3_guarded : d73_guarded = true ->
  forallb d73_case_ok (sublists (seq 0 7)) = true /\ decompose_model 7 [1; 2; 5] = DSub 0 (fan 7).
Proof. exact decompose_7_3_guarded_. Qed.
Print Assumptions decompose_7_3_guarded.
(** guarded version: when the three straight nodes lie on three different sides of a strictly
    convex quadrilateral A B C D (at A+t0(B-A), B+t1(C-B), C+t2(D-C)), then for every rotation r
    of the node numbering every new column has positive signed area *)
Theorem decompose_7_3_positive :
  forall (A B C D : pt) (t0 t1 t2 : R) (c : pt) (r start : nat) (e : entry),
  convex_ccw [A; B; C; D] -> (0 < t0 < 1)%R -> (0 < t1 < 1)%R -> (0 < t2 < 1)%R -> r < 7 ->
  decompose_model 7 (straight_layout r) = DSub start e ->
  Forall (fun ch => (0 < child_area (rotl r (hept_layout A B C D t0 t1 t2)) c start ch)%R) e.
Proof. exact decompose_7_3_positive_. Qed.
Print Assumptions decompose_7_3_positive.

(** volume (over Q): the rock volume of a column -- the sum of block_volume over its blocks
    -- depends only on area, surface and the bottom of the lowest layer *)
Theorem column_volume_telescopes :
  forall T ths A s, all_pos ths ->
  oeq (column_volume T ths A s) (match ths with [] => 0 | _ => pos_part (s - (T - qsum ths)) * A end)%Q.
Proof. exact column_volume_closed. Qed.
Print Assumptions column_volume_telescopes.

(** refine_layers: any layer selection, any factor >= 1, any surface elevation *)
Theorem refine_layers_volume :
  forall T ths sel factor A s v, all_pos ths -> 0 < factor ->
  column_volume T ths A s = Some v ->
  oeq (column_volume T (refine_ths factor sel ths) A s) v.
Proof. exact refine_layers_column_volume. Qed.
Print Assumptions refine_layers_volume.

(** children inherit the surface: volumes add up when areas do *)
Theorem column_volume_area_additive :
  forall T ths A1 A2 s v1 v2, all_pos ths ->
  column_volume T ths A1 s = Some v1 -> column_volume T ths A2 s = Some v2 ->
  oeq (column_volume T ths (A1 + A2) s) (v1 + v2)%Q.
Proof. exact column_volume_additive. Qed.
Print Assumptions column_volume_area_additive.
