(** C11 -- property theorems, second file (tiling, conformity across a shared side, surfaces).  Each is closed by [exact] of a lemma proved in
    Main.v / Volume.v / Gen/*.v and followed by Print Assumptions.  The tables
    (transition_column, decompose_table, gen_fan_child, gen_transition_type) are the ones
    regenerated from the current mulgrids.py. *)
From Coq Require Import List Arith Bool ZArith QArith Reals.
From P Require Import Geom Comb Cross Tiling Centroid.
From Gen Require Import GenRefine GenArea GenPos GenDecomp GenGood.
From P Require Import Model Volume MeshVolume Conform Main Decomp73 Layouts MainTiling.
Import ListNotations.
Open Scope nat_scope.

(** ** tiling.  [wn l p] is the signed crossing number of the closed polygon [l] about the point
    [p] (ray in +x direction, half-open rule: exactly the point-in-polygon test, with a sign);
    [child_wns cs c istart e p] lists it for the new columns of entry [e] applied to the parent
    [cs] with centre node [c].

    For ANY entry that passes the combinatorial check, ALL real coordinates and ALL points p of
    the plane (also on edges and at nodes) the children cover p as often as the parent does. *)
Theorem subdivision_crossing_additive :
  forall (cs : list pt) (c : pt) istart sides (e : entry) (p : pt),
  subdivision_ok (length cs) istart sides e = true ->
  enodup (expected_boundary (length cs) sides) = true ->
  zsum (child_wns cs c istart e p) = wn cs p.
Proof. exact subdivision_wn_. Qed.
Print Assumptions subdivision_crossing_additive.

(** refine(): whatever the non-empty set of refined sides of a 3/4-node column -- no convexity *)
Theorem refine_column_crossing :
  forall (cs : list pt) (c : pt) (sides : list nat),
  length cs = 3 \/ length cs = 4 -> is_side_set (length cs) sides = true -> sides <> [] ->
  exists istart e, refine_children (length cs) sides = Some (istart, e) /\
    forall p, zsum (child_wns cs c istart e p) = wn cs p.
Proof. exact refine_column_crossing_. Qed.
Print Assumptions refine_column_crossing.

(** crossing numbers of the polygons refine()/split_column() produce are indicators, 1 strictly
    inside, and a point with crossing number 1 is in the closed polygon *)
Theorem good_polygon_indicator :
  forall (l : list pt) (p : pt), good_poly l ->
  (wn l p = 0%Z \/ wn l p = 1%Z) /\ (strictly_inside l p -> wn l p = 1%Z) /\ (wn l p = 1%Z -> inside_closed l p).
Proof. exact good_polygon_indicator_. Qed.
Print Assumptions good_polygon_indicator.

(** refine() tiles: strictly convex counter-clockwise parent, centre node strictly inside and
    beyond the lines joining the mid-points of adjacent sides (so that the quadrilaterals it is
    a corner of are convex).  Every new column is a positively oriented triangle or a strictly
    convex quadrilateral; every point of the plane lies in exactly one new column if the old
    column contains it and in none otherwise (crossing-number membership: boundary points are
    attributed to exactly one column); open interiors of different new columns are disjoint,
    lie in the closed old column, and cover its open interior. *)
Theorem refine_column_tiles :
  forall (cs : list pt) (c : pt) (sides : list nat),
  length cs = 3 \/ length cs = 4 -> is_side_set (length cs) sides = true -> sides <> [] ->
  convex_ccw cs -> interior cs c -> centre_ok cs c ->
  exists istart e, refine_children (length cs) sides = Some (istart, e) /\ children_good cs c istart e /\
    (forall p, zsum (child_wns cs c istart e p) = wn cs p /\
               (wn cs p = 1%Z -> exactly_one (child_wns cs c istart e p)) /\
               (wn cs p = 0%Z -> forall j, nth j (child_wns cs c istart e p) 0%Z = 0%Z)) /\
    (forall p,
       (forall i j, i < length e -> j < length e ->
          strictly_inside (map (vpos cs c istart) (nth i e [])) p ->
          strictly_inside (map (vpos cs c istart) (nth j e [])) p -> i = j) /\
       (forall i, i < length e -> strictly_inside (map (vpos cs c istart) (nth i e [])) p -> inside_closed cs p) /\
       (strictly_inside cs p -> exists i, i < length e /\ inside_closed (map (vpos cs c istart) (nth i e [])) p)).
Proof. exact refine_column_tiles_. Qed.
Print Assumptions refine_column_tiles.

(** with the default centre node -- column.centre = geometry.polygon_centroid, [rcentroid] -- the
    two hypotheses on the centre follow from convexity: every strictly convex counter-clockwise
    3- or 4-node column is tiled by the new columns refine() makes, whatever sides are refined *)
Theorem centroid_meets_hypotheses :
  forall cs, length cs = 3 \/ length cs = 4 -> convex_ccw cs -> interior cs (rcentroid cs) /\ centre_ok cs (rcentroid cs).
Proof. exact centroid_ok_. Qed.
Print Assumptions centroid_meets_hypotheses.
Theorem refine_column_tiles_default_centre :
  forall (cs : list pt) (sides : list nat),
  length cs = 3 \/ length cs = 4 -> is_side_set (length cs) sides = true -> sides <> [] -> convex_ccw cs ->
  let c := rcentroid cs in
  exists istart e, refine_children (length cs) sides = Some (istart, e) /\ children_good cs c istart e /\
    (forall p, zsum (child_wns cs c istart e p) = wn cs p /\
               (wn cs p = 1%Z -> exactly_one (child_wns cs c istart e p)) /\
               (wn cs p = 0%Z -> forall j, nth j (child_wns cs c istart e p) 0%Z = 0%Z)) /\
    (forall p,
       (forall i j, i < length e -> j < length e ->
          strictly_inside (map (vpos cs c istart) (nth i e [])) p ->
          strictly_inside (map (vpos cs c istart) (nth j e [])) p -> i = j) /\
       (forall i, i < length e -> strictly_inside (map (vpos cs c istart) (nth i e [])) p -> inside_closed cs p) /\
       (strictly_inside cs p -> exists i, i < length e /\ inside_closed (map (vpos cs c istart) (nth i e [])) p)).
Proof. exact refine_column_tiles_centroid_. Qed.
Print Assumptions refine_column_tiles_default_centre.

(** split_column (entry regenerated from its AST): area for all reals; tiling for a strictly
    convex counter-clockwise quadrilateral split at any of its four nodes *)
Theorem split_column_area :
  forall (cs : list pt) (c : pt) i0, length cs = 4 -> i0 < 4 -> children_area cs c i0 split_entry = poly_area cs.
Proof. exact split_column_area_. Qed.
Print Assumptions split_column_area.
Theorem split_column_tiles :
  forall (cs : list pt) (c : pt) i0, length cs = 4 -> i0 < 4 -> convex_ccw cs ->
  split_model (length cs) i0 = Some (i0, split_entry) /\ children_good cs c i0 split_entry /\
  (forall p, zsum (child_wns cs c i0 split_entry p) = wn cs p /\
             (wn cs p = 1%Z -> exactly_one (child_wns cs c i0 split_entry p)) /\
             (wn cs p = 0%Z -> forall j, nth j (child_wns cs c i0 split_entry p) 0%Z = 0%Z)) /\
  (forall p,
     (forall i j, i < 2 -> j < 2 ->
        strictly_inside (map (vpos cs c i0) (nth i split_entry [])) p ->
        strictly_inside (map (vpos cs c i0) (nth j split_entry [])) p -> i = j) /\
     (forall i, i < 2 -> strictly_inside (map (vpos cs c i0) (nth i split_entry [])) p -> inside_closed cs p) /\
     (strictly_inside cs p -> exists i, i < 2 /\ inside_closed (map (vpos cs c i0) (nth i split_entry [])) p)).
Proof. exact split_column_tiles_. Qed.
Print Assumptions split_column_tiles.

(** a composition: split_column of a strictly convex quadrilateral, then triangulate_column of the
    shrunk column (the half that keeps the name).  [split_new_centre] is that column's centre after
    split_column as the current source sets it (recomputed centroid iff the assignment is
    unconditional -- read from the AST); the triangles about it tile the half, whatever the
    quadrilateral's centre [c_old] was (specified or not) *)
Theorem split_then_triangulate_tiles :
  forall (cs : list pt) (c_old : pt) i0, length cs = 4 -> i0 < 4 -> convex_ccw cs ->
  let kept := split_kept cs c_old i0 in
  let c' := split_new_centre c_old kept in
  length kept = 3 /\ convex_ccw kept /\ interior kept c' /\
  forall p, zsum (child_wns kept c' 0 (fan 3) p) = wn kept p /\
            (wn kept p = 1%Z -> exactly_one (child_wns kept c' 0 (fan 3) p)) /\
            (wn kept p = 0%Z -> forall j, nth j (child_wns kept c' 0 (fan 3) p) 0%Z = 0%Z).
Proof. exact split_then_triangulate_tiles_. Qed.
Print Assumptions split_then_triangulate_tiles.

(** triangulate_column: ANY number of nodes; the triangles about a centre node with every side
    of the column strictly on its left tile the column *)
Theorem triangulate_fan_tiles :
  forall (cs : list pt) (c : pt), interior cs c ->
  forall p, zsum (child_wns cs c 0 (fan (length cs)) p) = wn cs p /\
            (wn cs p = 1%Z -> exactly_one (child_wns cs c 0 (fan (length cs)) p)) /\
            (wn cs p = 0%Z -> forall j, nth j (child_wns cs c 0 (fan (length cs)) p) 0%Z = 0%Z).
Proof. exact fan_tiles_. Qed.
Print Assumptions triangulate_fan_tiles.

(** decompose_column: whichever branch it takes, every point keeps its multiplicity (all reals,
    any straight nodes) *)
Theorem decompose_column_crossing :
  forall (cs : list pt) (c p : pt) (straight : list nat) start e,
  decompose_model (length cs) straight = DSub start e -> start < length cs ->
  zsum (child_wns cs c start e p) = wn cs p.
Proof. exact decompose_column_crossing_. Qed.
Print Assumptions decompose_column_crossing.
(** decompose_column tiles -- complete case analysis ([tiles P cols]: every point of the plane lies in
    exactly one of [cols] if P contains it, in none otherwise).
    (i) every result is centre-based (each new column contains the centre node: the fan, (6,2;d=2),
        (8,4)) or one of the three centre-less entries (5,1), (6,2;d=3), (7,3);
    (ii) centre-based results tile for ANY position of the straight nodes as soon as the centre has
        every side strictly on its left (new columns: positive triangles / quadrilaterals split by a
        diagonal into two positive triangles);
    (iii) the centre-less entries tile in the layout their guard selects -- a strictly convex
        quadrilateral A B C D with one straight node on a side / two on opposite sides / three on
        three different sides, strictly inside the sides -- for every rotation of the numbering
        (new columns: positive triangles / strictly convex quadrilaterals);
    the (7,3) layout with two adjacent straight nodes: decompose_7_3_refuted / decompose_7_3_guarded. *)
Theorem decompose_cases_covered :
  forall nn straight start e, decompose_model nn straight = DSub start e ->
  all_centre e = true \/ exists k rule, In (k, rule, e) decompose_table /\ existsb (key_eqb k) centreless_keys = true.
Proof. exact decompose_cases_covered_. Qed.
Print Assumptions decompose_cases_covered.
Theorem decompose_centre_cases_tile :
  forall (cs : list pt) (c : pt) (straight : list nat) start e,
  decompose_model (length cs) straight = DSub start e -> start < length cs ->
  interior cs c -> all_centre e = true ->
  children_simple cs c start e /\ tiles cs (children_polys cs c start e).
Proof. exact decompose_centre_tiles_. Qed.
Print Assumptions decompose_centre_cases_tile.
Theorem decompose_5_1_tiles :
  forall (A B C D : pt) (t : R) (c : pt) (r start : nat) (e : entry),
  convex_ccw [A; B; C; D] -> (0 < t < 1)%R -> r < 5 ->
  decompose_model 5 (straight_rot 5 [0] r) = DSub start e ->
  let cs := rotl r (pent_layout A B C D t) in
  children_good cs c start e /\ tiles cs (children_polys cs c start e).
Proof. exact decompose_5_1_tiles_. Qed.
Print Assumptions decompose_5_1_tiles.
Theorem decompose_6_2_3_tiles :
  forall (A B C D : pt) (t0 t1 : R) (c : pt) (r start : nat) (e : entry),
  convex_ccw [A; B; C; D] -> (0 < t0 < 1)%R -> (0 < t1 < 1)%R -> r < 6 ->
  decompose_model 6 (straight_rot 6 [0; 3] r) = DSub start e ->
  let cs := rotl r (hex_layout A B C D t0 t1) in
  children_good cs c start e /\ tiles cs (children_polys cs c start e).
Proof. exact decompose_6_2_3_tiles_. Qed.
Print Assumptions decompose_6_2_3_tiles.
Theorem decompose_7_3_tiles :
  forall (A B C D : pt) (t0 t1 t2 : R) (c : pt) (r start : nat) (e : entry),
  convex_ccw [A; B; C; D] -> (0 < t0 < 1)%R -> (0 < t1 < 1)%R -> (0 < t2 < 1)%R -> r < 7 ->
  decompose_model 7 (straight_layout r) = DSub start e ->
  let cs := rotl r (hept_layout A B C D t0 t1 t2) in
  children_good cs c start e /\ tiles cs (children_polys cs c start e).
Proof. exact decompose_7_3_tiles_. Qed.
Print Assumptions decompose_7_3_tiles.

(** ** composition.  If op1 tiles P by columns among which C and op2 tiles C by G, the result tiles
    P; by induction over the sequence, every finite history of tiling steps applied to a mesh
    (a step = some column replaced by columns that tile it) leaves every point that lay in exactly
    one column in exactly one column, and every point that lay in none in none. *)
Theorem tiling_closed_under_composition :
  forall (P : list pt) l1 (C : list pt) l2 G, tiles P (l1 ++ C :: l2) -> tiles C G -> tiles P (l1 ++ G ++ l2).
Proof. exact tiles_compose_. Qed.
Print Assumptions tiling_closed_under_composition.
Theorem operation_sequences_tile :
  forall M M', steps M M' -> forall p, all01 (wns M p) ->
  (zsum (wns M p) = 1%Z -> exactly_one (wns M' p)) /\
  (zsum (wns M p) = 0%Z -> forall j, nth j (wns M' p) 0%Z = 0%Z).
Proof. exact steps_tile_. Qed.
Print Assumptions operation_sequences_tile.
(** the modelled operations are such steps *)
Theorem refine_is_tiling_step :
  forall (cs : list pt) (c : pt) (sides : list nat),
  length cs = 3 \/ length cs = 4 -> is_side_set (length cs) sides = true -> sides <> [] ->
  convex_ccw cs -> interior cs c -> centre_ok cs c ->
  exists istart e, refine_children (length cs) sides = Some (istart, e) /\ tiles cs (children_polys cs c istart e).
Proof. exact refine_is_tiling_step_. Qed.
Print Assumptions refine_is_tiling_step.
Theorem split_is_tiling_step :
  forall (cs : list pt) (c : pt) i0, length cs = 4 -> i0 < 4 -> convex_ccw cs -> tiles cs (children_polys cs c i0 split_entry).
Proof. exact split_is_tiling_step_. Qed.
Print Assumptions split_is_tiling_step.
Theorem triangulate_is_tiling_step :
  forall (cs : list pt) (c : pt), interior cs c -> tiles cs (children_polys cs c 0 (fan (length cs))).
Proof. exact triangulate_is_tiling_step_. Qed.
Print Assumptions triangulate_is_tiling_step.

(** ** conformity across a shared side.  [m] is the dict sidenodes as a finite map keyed by the
    unordered pair of corner names.  Two columns A, B (3 or 4 nodes) share a side (A runs a -> b
    along it, B runs b -> a) that has an entry in the dict: both look the SAME entry up, both are
    subdivided by a table entry, and every piece of that side on the boundary of A's subdivision
    (a -> mid, mid -> b) is, reversed, on the boundary of B's subdivision: no hanging node on a
    shared side. *)
Theorem refine_shared_side_conforming :
  forall (m : smap) (A B : list nat) (cidA cidB i j : nat),
  length A = 3 \/ length A = 4 -> length B = 3 \/ length B = 4 -> i < length A -> j < length B ->
  node_at A i = node_at B ((j + 1) mod length B) ->
  node_at A ((i + 1) mod length A) = node_at B j ->
  sn_of m (side_pair A i) = true ->
  slookup (side_pair A i) m = slookup (side_pair B j) m /\
  exists iA eA iB eB,
    refine_children (length A) (refined_sides (sn_of m) A) = Some (iA, eA) /\
    refine_children (length B) (refined_sides (sn_of m) B) = Some (iB, eB) /\
    forall g, In g (gside (sn_of m) A i) ->
      In g (map (gname_edge A cidA) (boundary (all_edges (length A) iA eA))) /\
      In (gswap g) (map (gname_edge B cidB) (boundary (all_edges (length B) iB eB))).
Proof. exact refine_shared_side_. Qed.
Print Assumptions refine_shared_side_conforming.
(** the node create_mid_node stores for a side is the one found from either neighbour *)
Theorem sidenode_created_is_found :
  forall a b a' b' n (m : smap), upair a b = upair a' b' ->
  slookup (upair a' b') (create_mid_node a b n m) = Some n /\ slookup (upair b' a') (create_mid_node a b n m) = Some n.
Proof. exact sidenode_created_is_found_. Qed.
Print Assumptions sidenode_created_is_found.

(** ** surfaces: every new column of the modelled refine / subdivide_column / split_column gets
    the parent's surface, and then (areas adding up) the rock volume is conserved *)
Theorem surface_inherited :
  forall (S : Type) (s : S) (e : entry) x, In x (subdivide_cols s e) -> snd x = s /\ In (fst x) e.
Proof. exact @surface_inherited_. Qed.
Print Assumptions surface_inherited.
Theorem children_volume_conserved :
  forall T ths s (areas : list Q) A v, all_pos ths -> column_volume T ths A s = Some v -> (qsum areas == A)%Q ->
  oeq (osum (map (fun a => column_volume T ths a s) areas)) v.
Proof. exact children_volume_conserved_. Qed.
Print Assumptions children_volume_conserved.

(** ** total rock volume of the whole geometry (sum of block_volume over all blocks of all columns;
    a geometry = top T, layer thicknesses, columns as (plan area, surface) pairs), over Q.
    [oeq o v]: the sum is defined and equals v.
    refine_layers with any layer selection and factor >= 1 leaves it unchanged; *)
Theorem refine_layers_total_volume :
  forall T ths sel factor (cols : list (Q * Q)) v, all_pos ths -> (0 < factor)%nat ->
  oeq (mesh_volume T ths cols) v -> oeq (mesh_volume T (refine_ths factor sel ths) cols) v.
Proof. exact refine_layers_mesh_volume_. Qed.
Print Assumptions refine_layers_total_volume.
(** so does replacing a column (A, s) anywhere in the geometry by any number of new columns that
    inherit s and whose areas add up to A (what the area theorems and surface_inherited give for
    refine / split_column / triangulate_column / decompose_column); *)
Theorem column_operation_total_volume :
  forall T ths (l1 : list (Q * Q)) A s l2 areas v, all_pos ths -> (qsum areas == A)%Q ->
  oeq (mesh_volume T ths (l1 ++ (A, s) :: l2)) v -> oeq (mesh_volume T ths (replace_column l1 areas s l2)) v.
Proof. exact replace_column_mesh_volume_. Qed.
Print Assumptions column_operation_total_volume.
(** and so does every finite sequence of such steps in any order (the total volume is defined
    before and after: no block_surface None) *)
Theorem operation_sequences_total_volume :
  forall (T : Q) (g g' : geometry), vsteps g g' -> all_pos (fst g) ->
  all_pos (fst g') /\
  (exists v, mesh_volume T (fst g) (snd g) = Some v) /\
  forall v, oeq (mesh_volume T (fst g) (snd g)) v -> oeq (mesh_volume T (fst g') (snd g')) v.
Proof. exact vsteps_mesh_volume_. Qed.
Print Assumptions operation_sequences_total_volume.
(** the total plan area of the geometry (sum of the column areas) is unchanged by every finite
    sequence of refine_layers / column-operation steps, in any order *)
Theorem operation_sequences_total_area :
  forall (g g' : geometry), vsteps g g' -> (mesh_area (snd g') == mesh_area (snd g))%Q.
Proof. exact vsteps_mesh_area_. Qed.
Print Assumptions operation_sequences_total_area.
(** refine_layers (any layer selection, factor >= 1): the new layers have positive thicknesses and
    the same total depth -- the bottom of the lowest layer does not move *)
Theorem refine_layers_depth :
  forall factor sel ths, (0 < factor)%nat -> all_pos ths ->
  all_pos (refine_ths factor sel ths) /\ (qsum (refine_ths factor sel ths) == qsum ths)%Q.
Proof. exact refine_layers_depth_. Qed.
Print Assumptions refine_layers_depth.
