(** C11 -- decompose_column's (nn, ns) = (7, 3) special case.

    The area identity holds for every heptagon (Main.decompose_column_area_).  The geometric
    clauses (every new column positively oriented, no node in the interior of a new column's
    side) need the layout the code silently assumes: the three straight nodes lie on three
    different sides of the underlying quadrilateral.  [decompose_7_3_refuted_] exhibits a convex
    heptagon with three straight nodes, two of them adjacent, for which the code's choice emits a
    child with zero area (finding decompose_columns:7gon-3straight-adjacent);
    [decompose_7_3_positive_] proves positivity under the side condition, for every rotation
    of the node numbering. *)
From Coq Require Import List Arith Bool ZArith Reals Lra Lia.
From P Require Import Geom Comb.
From Gen Require Import GenRefine.
From P Require Import Model.
Import ListNotations.
Open Scope R_scope.

Definition prev_idx (n i : nat) : nat := (i + n - 1) mod n.
(** node i of the polygon is straight: it is collinear with its two neighbours *)
Definition straight_at (cs : list pt) (i : nat) : Prop :=
  tri (nth (prev_idx (length cs) i) cs origin) (nth i cs origin) (nth ((i + 1) mod length cs) cs origin) = 0.
Definition weakly_convex_ccw (cs : list pt) : Prop :=
  forall i, (i < length cs)%nat -> 0 <= tri (corner cs i 0) (corner cs i 1) (corner cs i 2).

Definition hept : list pt := [(0, 0); (1, 0); (3, 0); (4, 0); (4, 4); (2, 4); (0, 4)].

Definition e73 : entry :=
  [[Corner 0; Corner 1; Corner 2]; [Corner 2; Corner 3; Corner 4]; [Corner 0; Corner 2; Corner 4]; [Corner 4; Corner 5; Corner 6; Corner 0]].
Lemma refuted_core : decompose_model 7 [1; 2; 5]%nat = DSub 1 e73 ->
  exists (cs : list pt) (c : pt) (straight : list nat) (start : nat) (e : entry) (ch : child),
    length cs = 7%nat /\ weakly_convex_ccw cs /\ 0 < poly_area cs /\
    (forall i, (i < 7)%nat -> (In i straight <-> straight_at cs i)) /\
    decompose_model 7 straight = DSub start e /\ In ch e /\ child_area cs c start ch = 0.
Proof.
  intro Hm.
  exists hept, (2, 2), [1; 2; 5]%nat, 1%nat, e73, [Corner 0; Corner 1; Corner 2].
  split; [reflexivity|]. split.
  { intros i Hi. cbn [length hept] in Hi.
    do 7 (destruct i as [|i]; [crunch; lra|]). exfalso; lia. }
  split; [crunch; lra|]. split.
  { intros i Hi. unfold straight_at.
    do 7 (destruct i as [|i];
          [split; [intros [H|[H|[H|[]]]]; try discriminate H; crunch; lra
                  |intro H; first [solve [cbn [In]; auto 6] | exfalso; crunch_in H; lra]]|]).
    exfalso; lia. }
  split; [exact Hm|]. split; [left; reflexivity|]. crunch. lra.
Qed.
(** as the source stands WITHOUT the guard: refuted *)
Lemma decompose_7_3_refuted_ : d73_guarded = false ->
  exists (cs : list pt) (c : pt) (straight : list nat) (start : nat) (e : entry) (ch : child),
    length cs = 7%nat /\ weakly_convex_ccw cs /\ 0 < poly_area cs /\
    (forall i, (i < 7)%nat -> (In i straight <-> straight_at cs i)) /\
    decompose_model 7 straight = DSub start e /\ In ch e /\ child_area cs c start ch = 0.
Proof. intro Hg. apply refuted_core. vm_compute in Hg |- *. first [discriminate Hg | reflexivity]. Qed.

(** with the guard (proposed repair: the subdivision is used only if the straight nodes
    alternate from the start node) every set of three straight nodes either alternates or gets
    the triangulation fan; the witness above gets the fan *)
Definition d73_case_ok (s : list nat) : bool :=
  negb (length s =? 3)%nat ||
  match decompose_model 7 s with
  | DSub start e => ((start =? 0)%nat && (length e =? 7)%nat && forallb (fun ch => (length ch =? 3)%nat) e)
                    || forallb (fun d => nmem ((start + d) mod 7) s) [2; 4]%nat
  | _ => false
  end.
Lemma decompose_7_3_guarded_ : d73_guarded = true ->
  forallb d73_case_ok (sublists (seq 0 7)) = true /\ decompose_model 7 [1; 2; 5]%nat = DSub 0 (fan 7).
Proof.
  intro Hg. split; vm_compute in Hg |- *; first [discriminate Hg | reflexivity].
Qed.

(** ** positivity under the side condition *)
Definition lerp (p q : pt) (t : R) : pt := (fst p + t * (fst q - fst p), snd p + t * (snd q - snd p)).

Section Layout.
  Variables A B C D : pt.
  Variables t0 t1 t2 : R.
  Hypothesis HABC : 0 < tri A B C.
  Hypothesis HBCD : 0 < tri B C D.
  Hypothesis HCDA : 0 < tri C D A.
  Hypothesis HDAB : 0 < tri D A B.
  Hypothesis H0 : 0 < t0 < 1.
  Hypothesis H1 : 0 < t1 < 1.
  Hypothesis H2 : 0 < t2 < 1.
  Let p0 := lerp A B t0.
  Let p2 := lerp B C t1.
  Let p4 := lerp C D t2.

  Lemma pos3 a b c : 0 < a -> 0 < b -> 0 < c -> 0 < a * b * c.
  Proof. intros. apply Rmult_lt_0_compat; [apply Rmult_lt_0_compat|]; auto. Qed.

  Lemma child_a : 0 < tri p0 B p2.
  Proof.
    replace (tri p0 B p2) with ((1 - t0) * t1 * tri A B C).
    - apply pos3; lra.
    - destruct A, B, C. unfold p0, p2, lerp, tri. crunch. field.
  Qed.
  Lemma child_b : 0 < tri p2 C p4.
  Proof.
    replace (tri p2 C p4) with ((1 - t1) * t2 * tri B C D).
    - apply pos3; lra.
    - destruct B, C, D. unfold p2, p4, lerp, tri. crunch. field.
  Qed.
  Lemma child_c : 0 < tri p0 p2 p4.
  Proof.
    replace (tri p0 p2 p4) with
      ((1 - t0) * (1 - t1) * ((1 - t2) * tri A B C) + (1 - t0) * (1 - t1) * (t2 * tri D A B)
       + (1 - t0) * t1 * (t2 * tri C D A) + t0 * t1 * (t2 * tri B C D)).
    - assert (0 < (1 - t0) * (1 - t1) * ((1 - t2) * tri A B C)) by (apply pos3; try lra; apply Rmult_lt_0_compat; lra).
      assert (0 < (1 - t0) * (1 - t1) * (t2 * tri D A B)) by (apply pos3; try lra; apply Rmult_lt_0_compat; lra).
      assert (0 < (1 - t0) * t1 * (t2 * tri C D A)) by (apply pos3; try lra; apply Rmult_lt_0_compat; lra).
      assert (0 < t0 * t1 * (t2 * tri B C D)) by (apply pos3; try lra; apply Rmult_lt_0_compat; lra).
      lra.
    - destruct A, B, C, D. unfold p0, p2, p4, lerp, tri. crunch. field.
  Qed.
  Lemma child_d : 0 < poly_area [p4; D; A; p0].
  Proof.
    replace (poly_area [p4; D; A; p0]) with
      ((1 - t2) * tri C D A + t0 * ((1 - t2) * tri A B C) + t0 * (t2 * tri D A B)).
    - assert (0 < (1 - t2) * tri C D A) by (apply Rmult_lt_0_compat; lra).
      assert (0 < t0 * ((1 - t2) * tri A B C)) by (apply Rmult_lt_0_compat; try lra; apply Rmult_lt_0_compat; lra).
      assert (0 < t0 * (t2 * tri D A B)) by (apply Rmult_lt_0_compat; try lra; apply Rmult_lt_0_compat; lra).
      lra.
    - destruct A, B, C, D. unfold p0, p4, lerp, tri. crunch. field.
  Qed.

  (** the heptagon in the node order the special case expects, and its rotations *)
  Definition hept_layout : list pt := [p0; B; p2; C; p4; D; A].
  Definition rotl {X} (r : nat) (l : list X) : list X := skipn r l ++ firstn r l.
  (** indices of the three straight nodes after rotating the numbering by r, ascending, as
      decompose_column collects them *)
  Definition straight_layout (r : nat) : list nat :=
    filter (fun i => nmem ((i + r) mod 7) [0; 2; 4]%nat) (seq 0 7).

  Lemma layout_positive (c : pt) (r : nat) start e :
    (r < 7)%nat -> decompose_model 7 (straight_layout r) = DSub start e ->
    Forall (fun ch => 0 < child_area (rotl r hept_layout) c start ch) e.
  Proof.
    intros Hr Hd.
    pose proof child_a as Ca. pose proof child_b as Cb. pose proof child_c as Cc. pose proof child_d as Cd.
    do 7 (destruct r as [|r];
          [vm_compute in Hd; inversion Hd; subst; clear Hd;
           repeat (apply Forall_cons; [first [exact Ca | exact Cb | exact Cc | exact Cd]|]); apply Forall_nil|]).
    exfalso; lia.
  Qed.
End Layout.

Lemma decompose_7_3_positive_ (A B C D : pt) (t0 t1 t2 : R) (c : pt) (r start : nat) (e : entry) :
  convex_ccw [A; B; C; D] -> 0 < t0 < 1 -> 0 < t1 < 1 -> 0 < t2 < 1 -> (r < 7)%nat ->
  decompose_model 7 (straight_layout r) = DSub start e ->
  Forall (fun ch => 0 < child_area (rotl r (hept_layout A B C D t0 t1 t2)) c start ch) e.
Proof.
  intros Hc H0 H1 H2 Hr Hd. unfold convex_ccw in Hc. cbn [length seq] in Hc.
  repeat match goal with H : Forall _ (_ :: _) |- _ => apply Forall_cons_iff in H; destruct H as [? H] end.
  eapply layout_positive; eauto.
Qed.

(** non-vacuity: the unit square with mid-side nodes on three sides, numbering rotated by 2 *)
Example ex_layout :
  convex_ccw [(0, 0); (1, 0); (1, 1); (0, 1)] /\ straight_layout 2 = [0; 2; 5]%nat /\
  decompose_model 7 (straight_layout 2) <> DKeep.
Proof.
  split; [crunch; repeat (apply Forall_cons; [lra|]); apply Forall_nil|].
  split; [reflexivity|vm_compute; discriminate].
Qed.
