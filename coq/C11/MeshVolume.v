(** C11 -- total rock volume of the WHOLE geometry (sum of block_volume over block_name_list, i.e.
    over every column's blocks), over Q, axiom-free.

    A geometry is, for this purpose, the layer structure (top [T], thicknesses [ths]) and the list
    of its columns as pairs (plan area, surface elevation).  Two kinds of steps:
      - refine_layers: the thicknesses of any selection of layers are cut in [factor] equal parts;
      - a column operation (refine / split_column / triangulate_column / decompose_column as
        modelled): one column (A, s) is replaced by any number of new columns that inherit [s]
        (surface_inherited) and whose areas add up to [A] (the area theorems).
    Each step, and hence every finite sequence of them in any order, leaves the total volume
    unchanged. *)
From Coq Require Import List Arith Bool QArith Lia Lqa.
From P Require Import Volume.
Import ListNotations.
Open Scope Q_scope.

Definition mesh_volume (T : Q) (ths : list Q) (cols : list (Q * Q)) : option Q :=
  osum (map (fun c => column_volume T ths (fst c) (snd c)) cols).

(** rock height under a surface [s]: depends on the layers only through the lowest bottom *)
Definition rock_height (T : Q) (ths : list Q) (s : Q) : Q :=
  match ths with [] => 0 | _ => pos_part (s - (T - qsum ths)) end.
Definition mesh_closed (T : Q) (ths : list Q) (cols : list (Q * Q)) : Q :=
  qsum (map (fun c => rock_height T ths (snd c) * fst c) cols).

Lemma oeq_unique a x y : oeq a x -> oeq a y -> x == y.
Proof. destruct a; cbn [oeq]; [intros <- <-; reflexivity|tauto]. Qed.

Lemma column_volume_rock T ths A s : all_pos ths -> oeq (column_volume T ths A s) (rock_height T ths s * A).
Proof.
  intro Hp. eapply oeq_compat; [|apply column_volume_closed; auto]. unfold rock_height. destruct ths; ring.
Qed.

Lemma mesh_volume_closed_ T ths cols : all_pos ths -> oeq (mesh_volume T ths cols) (mesh_closed T ths cols).
Proof.
  intro Hp. unfold mesh_volume, mesh_closed. induction cols as [|c r IH]; cbn [map osum qsum].
  - cbn [oeq]. reflexivity.
  - apply oadd_oeq; [apply column_volume_rock; auto|exact IH].
Qed.

Lemma qsum_map_ext {X} (f g : X -> Q) l : (forall x, f x == g x) -> qsum (map f l) == qsum (map g l).
Proof. intro H. induction l as [|x r IH]; cbn [map qsum]; [reflexivity|rewrite IH, H; reflexivity]. Qed.

Lemma rock_height_refine T ths sel factor s : (0 < factor)%nat ->
  rock_height T (refine_ths factor sel ths) s == rock_height T ths s.
Proof.
  intro Hf. unfold rock_height. destruct (refine_ths factor sel ths) eqn:E.
  - apply refine_ths_nil in E; auto. subst. reflexivity.
  - destruct ths as [|th r]; [discriminate|]. rewrite <- E.
    apply pos_part_ext. rewrite refine_ths_sum; auto. reflexivity.
Qed.

(** refine_layers: any layer selection, any factor >= 1, any columns and surfaces *)
Lemma refine_layers_mesh_volume_ T ths sel factor cols v :
  all_pos ths -> (0 < factor)%nat ->
  oeq (mesh_volume T ths cols) v -> oeq (mesh_volume T (refine_ths factor sel ths) cols) v.
Proof.
  intros Hp Hf Hv.
  pose proof (mesh_volume_closed_ T ths cols Hp) as H0.
  pose proof (mesh_volume_closed_ T _ cols (refine_ths_pos factor Hf ths sel Hp)) as H1.
  eapply oeq_compat; [|exact H1]. rewrite (oeq_unique _ _ _ Hv H0).
  unfold mesh_closed. apply qsum_map_ext. intro c. rewrite rock_height_refine; auto. reflexivity.
Qed.

Definition replace_column (l1 : list (Q * Q)) (areas : list Q) (s : Q) (l2 : list (Q * Q)) : list (Q * Q) :=
  l1 ++ map (fun a => (a, s)) areas ++ l2.

Lemma mesh_closed_app T ths a b : mesh_closed T ths (a ++ b) == mesh_closed T ths a + mesh_closed T ths b.
Proof. unfold mesh_closed. rewrite map_app, qsum_app. reflexivity. Qed.
Lemma mesh_closed_children T ths areas s :
  mesh_closed T ths (map (fun a => (a, s)) areas) == rock_height T ths s * qsum areas.
Proof.
  unfold mesh_closed. induction areas as [|a r IH]; cbn [map qsum fst snd]; [ring|rewrite IH; ring].
Qed.

(** a column operation: column (A, s) anywhere in the geometry replaced by children inheriting s *)
Lemma replace_column_mesh_volume_ T ths l1 A s l2 areas v :
  all_pos ths -> qsum areas == A ->
  oeq (mesh_volume T ths (l1 ++ (A, s) :: l2)) v -> oeq (mesh_volume T ths (replace_column l1 areas s l2)) v.
Proof.
  intros Hp Hs Hv.
  pose proof (mesh_volume_closed_ T ths (l1 ++ (A, s) :: l2) Hp) as H0.
  eapply oeq_compat; [|apply mesh_volume_closed_; auto]. rewrite (oeq_unique _ _ _ Hv H0).
  unfold replace_column. rewrite !mesh_closed_app, mesh_closed_children, Hs.
  change ((A, s) :: l2) with ([(A, s)] ++ l2). rewrite mesh_closed_app.
  unfold mesh_closed at 4. cbn [map qsum fst snd]. ring.
Qed.

(** ** any finite sequence of the two kinds of steps, in any order *)
Definition geometry : Type := (list Q * list (Q * Q))%type.
Inductive vstep : geometry -> geometry -> Prop :=
| vs_layers ths cols sel factor : (0 < factor)%nat -> vstep (ths, cols) (refine_ths factor sel ths, cols)
| vs_column ths l1 A s l2 areas : qsum areas == A ->
    vstep (ths, l1 ++ (A, s) :: l2) (ths, replace_column l1 areas s l2).
Inductive vsteps : geometry -> geometry -> Prop :=
| vsteps_nil g : vsteps g g
| vsteps_cons g1 g2 g3 : vstep g1 g2 -> vsteps g2 g3 -> vsteps g1 g3.

Lemma vsteps_mesh_volume_ T g g' : vsteps g g' -> all_pos (fst g) ->
  all_pos (fst g') /\
  (exists v, mesh_volume T (fst g) (snd g) = Some v) /\
  forall v, oeq (mesh_volume T (fst g) (snd g)) v -> oeq (mesh_volume T (fst g') (snd g')) v.
Proof.
  intros Hs. induction Hs as [g|g1 g2 g3 H12 H23 IH]; intro Hp.
  - split; [auto|split; [|auto]].
    pose proof (mesh_volume_closed_ T (fst g) (snd g) Hp) as H.
    destruct (mesh_volume T (fst g) (snd g)); [eauto|destruct H].
  - assert (Hp2 : all_pos (fst g2)).
    { destruct H12; cbn [fst] in *; auto. apply refine_ths_pos; auto. }
    destruct (IH Hp2) as (Hp3 & _ & Hv). split; [auto|split].
    + pose proof (mesh_volume_closed_ T (fst g1) (snd g1) Hp) as H.
      destruct (mesh_volume T (fst g1) (snd g1)); [eauto|destruct H].
    + intros v H1. apply Hv. destruct H12; cbn [fst snd] in *.
      * apply refine_layers_mesh_volume_; auto.
      * apply replace_column_mesh_volume_ with (A := A); auto.
Qed.

(** non-vacuity: two columns, three layers; the middle layer cut in 3, then the first column
    (area 7, surface 85) replaced by three children of areas 3, 2, 2 *)
Example ex_vsteps :
  all_pos [10; 20; 30] /\
  vsteps ([10; 20; 30], [(7, 85); (4, 100)])
         (refine_ths 3 [false; true; false] [10; 20; 30], replace_column [] [3; 2; 2] 85 [(4, 100)]) /\
  oeq (mesh_volume 100 [10; 20; 30] [(7, 85); (4, 100)]) 555 /\
  oeq (mesh_volume 100 (refine_ths 3 [false; true; false] [10; 20; 30]) (replace_column [] [3; 2; 2] 85 [(4, 100)])) 555.
Proof.
  split; [repeat constructor; reflexivity|]. split; [|split; vm_compute; reflexivity].
  eapply vsteps_cons; [apply vs_layers with (factor := 3%nat); lia|].
  eapply vsteps_cons; [|apply vsteps_nil].
  apply (vs_column _ [] 7 85 [(4, 100)] [3; 2; 2]). vm_compute. reflexivity.
Qed.

(** ** total plan area of the geometry: unchanged by every finite sequence of steps *)
Definition mesh_area (cols : list (Q * Q)) : Q := qsum (map fst cols).
Lemma mesh_area_app a b : mesh_area (a ++ b) == mesh_area a + mesh_area b.
Proof. unfold mesh_area. rewrite map_app, qsum_app. reflexivity. Qed.
Lemma mesh_area_children areas s : mesh_area (map (fun a => (a, s)) areas) == qsum areas.
Proof. unfold mesh_area. induction areas as [|a r IH]; cbn [map qsum fst]; [reflexivity|rewrite IH; reflexivity]. Qed.
Lemma vstep_mesh_area_ g g' : vstep g g' -> mesh_area (snd g') == mesh_area (snd g).
Proof.
  intros H. destruct H as [ths cols sel factor Hf|ths l1 A s l2 areas Hs]; cbn [snd]; [reflexivity|].
  unfold replace_column. rewrite !mesh_area_app, mesh_area_children, Hs.
  change ((A, s) :: l2) with ([(A, s)] ++ l2). rewrite mesh_area_app.
  unfold mesh_area at 4. cbn [map qsum fst]. ring.
Qed.
Lemma vsteps_mesh_area_ g g' : vsteps g g' -> mesh_area (snd g') == mesh_area (snd g).
Proof.
  induction 1 as [g|g1 g2 g3 H12 H23 IH]; [reflexivity|].
  rewrite IH. apply vstep_mesh_area_; auto.
Qed.

(** refine_layers: the new layers have positive thicknesses and the same total depth (the bottom
    of the lowest layer does not move); layers that are not selected keep their thickness *)
Lemma refine_layers_depth_ factor sel ths : (0 < factor)%nat -> all_pos ths ->
  all_pos (refine_ths factor sel ths) /\ qsum (refine_ths factor sel ths) == qsum ths.
Proof. intros Hf Hp. split; [apply refine_ths_pos; auto|apply refine_ths_sum; auto]. Qed.
