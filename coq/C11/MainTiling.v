(** C11 -- tiling theorems about the regenerated tables (Gen/*.v): refine(), split_column(),
    triangulate_column() and decompose_column(); conformity across a shared side; surfaces. *)
From Coq Require Import List Arith Bool ZArith Reals Lra Lia.
From P Require Import Geom Comb Cross Tiling Centroid.
From Gen Require Import GenRefine GenArea GenPos GenDecomp GenGood.
From P Require Import Model Conform Main Decomp73 Layouts.
Import ListNotations.
Open Scope nat_scope.

(** ** bookkeeping: the expected boundaries are duplicate-free *)
Lemma expected_nodup_ok_true : expected_nodup_ok = true.
Proof. vm_compute. reflexivity. Qed.
Lemma expected_nodup_34 nn sides :
  nn = 3 \/ nn = 4 -> is_side_set nn sides = true -> enodup (expected_boundary nn sides) = true.
Proof.
  intros Hnn Hs. pose proof expected_nodup_ok_true as H. unfold expected_nodup_ok in H.
  apply andb_true_iff in H. destruct H as [H _]. rewrite forallb_forall in H.
  assert (Hin : In nn [3; 4]) by (cbn [In]; destruct Hnn; auto).
  specialize (H nn Hin). rewrite forallb_forall in H. apply H. apply side_set_enumerated; auto.
Qed.
Lemma expected_nodup_nil nn : 3 <= nn <= 16 -> enodup (expected_boundary nn []) = true.
Proof.
  intro Hn. pose proof expected_nodup_ok_true as H. unfold expected_nodup_ok in H.
  apply andb_true_iff in H. destruct H as [_ H]. rewrite forallb_forall in H. apply H. apply in_seq. lia.
Qed.

Lemma convex_good cs : length cs = 3 \/ length cs = 4 -> convex_ccw cs -> good_poly cs.
Proof.
  intros [H|H] Hc; destruct_len cs H; crunch_in Hc; forall_inv_all; crunch; repeat split; lra.
Qed.

(** ** refine(): pointwise multiplicity, for all reals, no convexity needed *)
Lemma refine_column_crossing_ (cs : list pt) (c : pt) (sides : list nat) :
  length cs = 3 \/ length cs = 4 -> is_side_set (length cs) sides = true -> sides <> [] ->
  exists istart e, refine_children (length cs) sides = Some (istart, e) /\
    forall p, zsum (child_wns cs c istart e p) = wn cs p.
Proof.
  intros Hnn Hs Hne.
  destruct (tt_case_ok_children _ _ (transition_type_total_ _ _ Hnn Hs Hne)) as (istart & e & key & Hr & Hlt & _ & Hsub).
  exists istart, e. split; auto. intro p.
  apply (subdivision_wn_ cs c istart sides e p Hsub). apply expected_nodup_34; auto.
Qed.

(** strictly convex parent, centre inside and beyond the mid-lines: exactly one new column *)
Lemma refine_column_tiles_ (cs : list pt) (c : pt) (sides : list nat) :
  length cs = 3 \/ length cs = 4 -> is_side_set (length cs) sides = true -> sides <> [] ->
  convex_ccw cs -> interior cs c -> centre_ok cs c ->
  exists istart e, refine_children (length cs) sides = Some (istart, e) /\ children_good cs c istart e /\
    (forall p, zsum (child_wns cs c istart e p) = wn cs p /\
               (wn cs p = 1%Z -> exactly_one (child_wns cs c istart e p)) /\
               (wn cs p = 0%Z -> forall j, nth j (child_wns cs c istart e p) 0%Z = 0%Z)) /\
    (forall p,
       (forall i j, i < length e -> j < length e ->
          strictly_inside (map (vpos cs c istart) (nth i e [])) p ->
          strictly_inside (map (vpos cs c istart) (nth j e [])) p -> i = j) /\
       (forall i, i < length e -> strictly_inside (map (vpos cs c istart) (nth i e [])) p -> inside_closed cs p) /\
       (strictly_inside cs p -> exists i, i < length e /\ inside_closed (map (vpos cs c istart) (nth i e [])) p)).
Proof.
  intros Hnn Hs Hne Hc Hi Hce.
  destruct (tt_case_ok_children _ _ (transition_type_total_ _ _ Hnn Hs Hne)) as (istart & e & key & Hr & Hlt & (ents & Hi1 & Hi2) & Hsub).
  assert (Hg : children_good cs c istart e) by (apply (transition_table_good_gen _ _ _ _ Hi1 Hi2); auto).
  pose proof (expected_nodup_34 _ _ Hnn Hs) as Hx.
  exists istart, e. split; [auto|]. split; [auto|]. split.
  - apply (subdivision_tiles_ cs c istart sides e Hsub Hx Hg).
  - apply (subdivision_tiles_orient_ cs c istart sides e Hsub Hx Hg). apply convex_good; auto.
Qed.

(** the default centre (column.centre = polygon centroid) meets the two hypotheses on c *)
Lemma centroid_ok_ cs : length cs = 3 \/ length cs = 4 -> convex_ccw cs ->
  interior cs (rcentroid cs) /\ centre_ok cs (rcentroid cs).
Proof.
  intros [H|H] Hc; destruct_len cs H.
  - apply centroid_ok_tri; auto.
  - apply centroid_ok_quad; auto.
Qed.
Lemma refine_column_tiles_centroid_ (cs : list pt) (sides : list nat) :
  length cs = 3 \/ length cs = 4 -> is_side_set (length cs) sides = true -> sides <> [] -> convex_ccw cs ->
  let c := rcentroid cs in
  exists istart e, refine_children (length cs) sides = Some (istart, e) /\ children_good cs c istart e /\
    (forall p, zsum (child_wns cs c istart e p) = wn cs p /\
               (wn cs p = 1%Z -> exactly_one (child_wns cs c istart e p)) /\
               (wn cs p = 0%Z -> forall j, nth j (child_wns cs c istart e p) 0%Z = 0%Z)) /\
    (forall p,
       (forall i j, i < length e -> j < length e ->
          strictly_inside (map (vpos cs c istart) (nth i e [])) p ->
          strictly_inside (map (vpos cs c istart) (nth j e [])) p -> i = j) /\
       (forall i, i < length e -> strictly_inside (map (vpos cs c istart) (nth i e [])) p -> inside_closed cs p) /\
       (strictly_inside cs p -> exists i, i < length e /\ inside_closed (map (vpos cs c istart) (nth i e [])) p)).
Proof.
  intros Hnn Hs Hne Hc c. destruct (centroid_ok_ cs Hnn Hc) as [Hi Hce].
  apply refine_column_tiles_; auto.
Qed.

(** ** split_column *)
Lemma split_boundary_ok_true : split_boundary_ok = true.
Proof. vm_compute. reflexivity. Qed.
Lemma split_boundary_ i0 : i0 < 4 -> subdivision_ok 4 i0 [] split_entry = true.
Proof.
  intro H. pose proof split_boundary_ok_true as B. unfold split_boundary_ok in B. rewrite forallb_forall in B.
  apply B. apply in_seq. lia.
Qed.
Lemma split_column_area_ (cs : list pt) (c : pt) i0 :
  length cs = 4 -> i0 < 4 -> children_area cs c i0 split_entry = poly_area cs.
Proof. intros. apply split_area_gen; auto. Qed.
Lemma split_column_tiles_ (cs : list pt) (c : pt) i0 :
  length cs = 4 -> i0 < 4 -> convex_ccw cs ->
  split_model (length cs) i0 = Some (i0, split_entry) /\ children_good cs c i0 split_entry /\
  (forall p, zsum (child_wns cs c i0 split_entry p) = wn cs p /\
             (wn cs p = 1%Z -> exactly_one (child_wns cs c i0 split_entry p)) /\
             (wn cs p = 0%Z -> forall j, nth j (child_wns cs c i0 split_entry p) 0%Z = 0%Z)) /\
  (forall p,
     (forall i j, i < 2 -> j < 2 ->
        strictly_inside (map (vpos cs c i0) (nth i split_entry [])) p ->
        strictly_inside (map (vpos cs c i0) (nth j split_entry [])) p -> i = j) /\
     (forall i, i < 2 -> strictly_inside (map (vpos cs c i0) (nth i split_entry [])) p -> inside_closed cs p) /\
     (strictly_inside cs p -> exists i, i < 2 /\ inside_closed (map (vpos cs c i0) (nth i split_entry [])) p)).
Proof.
  intros Hl Hi Hc.
  assert (Hg : children_good cs c i0 split_entry) by (apply split_good_gen; auto).
  assert (Hsub : subdivision_ok (length cs) i0 [] split_entry = true) by (rewrite Hl; apply split_boundary_; auto).
  assert (Hx : enodup (expected_boundary (length cs) []) = true) by (rewrite Hl; apply expected_nodup_nil; lia).
  split; [|split; [auto|split]].
  - unfold split_model. rewrite Hl. apply Nat.ltb_lt in Hi. rewrite Hi. reflexivity.
  - apply (subdivision_tiles_ cs c i0 [] split_entry Hsub Hx Hg).
  - apply (subdivision_tiles_orient_ cs c i0 [] split_entry Hsub Hx Hg). apply convex_good; auto.
Qed.

(** ** split_column, then triangulate_column of the shrunk column (a composition: "earlier
    refinements" as inputs).  The shrunk column's centre afterwards is [split_new_centre]: the
    centroid of the remaining triangle iff split_column recomputes it unconditionally
    ([gen_split_recentre], read from the AST), otherwise the old centre. *)
Definition split_kept (cs : list pt) (c : pt) (i0 : nat) : list pt := map (vpos cs c i0) (nth 0 split_entry []).
Definition split_new_centre (c_old : pt) (kept : list pt) : pt := if gen_split_recentre then rcentroid kept else c_old.
Lemma good_tri_convex a b c : (0 < orient a b c)%R -> convex_ccw [a; b; c].
Proof.
  intro H. destruct a, b, c. unfold orient in H. cbn [fst snd] in H.
  crunch. repeat (apply Forall_cons; [lra|]). apply Forall_nil.
Qed.

Lemma zsum_map_add {A} (f g : A -> Z) l : zsum (map (fun x => (f x + g x)%Z) l) = (zsum (map f l) + zsum (map g l))%Z.
Proof. induction l as [|x l IH]; cbn [map zsum]; lia. Qed.
Lemma zsum_map_opp {A} (f : A -> Z) l : zsum (map (fun x => (- f x)%Z) l) = (- zsum (map f l))%Z.
Proof. induction l as [|x l IH]; cbn [map zsum]; lia. Qed.
Lemma zsum_shift (g : nat -> Z) n : 0 < n ->
  zsum (map (fun i => g ((i + 1) mod n)) (seq 0 n)) = zsum (map g (seq 0 n)).
Proof.
  destruct n as [|m]; [lia|]. intros _.
  rewrite seq_S at 1. rewrite map_app, zsum_app. cbn [map zsum Nat.add].
  replace ((m + 1) mod S m) with 0 by (replace (m + 1) with (S m) by lia; now rewrite Nat.mod_same).
  cbn [seq map zsum]. rewrite <- seq_shift, map_map.
  rewrite (map_ext_in (fun i => g ((i + 1) mod S m)) (fun i => g (S i))).
  - lia.
  - intros i Hi. apply in_seq in Hi. rewrite Nat.mod_small by lia. f_equal. lia.
Qed.
Lemma fan_child_wn cs c p i : i < length cs ->
  wn (map (vpos cs c 0) (gen_fan_child (length cs) i)) p =
  (cr (nth i cs origin) (nth ((i + 1) mod length cs) cs origin) p
   + (cr (nth ((i + 1) mod length cs) cs origin) c p + - cr (nth i cs origin) c p))%Z.
Proof.
  intro Hi. rewrite gen_fan_child_shape. cbn [map vpos]. unfold corner. cbn [Nat.add].
  rewrite Nat.mod_mod by lia. rewrite (Nat.mod_small i) by lia.
  unfold wn, cyc, cpairs, cre. cbn [map zsum fst snd]. rewrite (cr_swap (nth i cs origin) c p). lia.
Qed.
Lemma fan_wn_ (cs : list pt) (c p : pt) : zsum (child_wns cs c 0 (fan (length cs)) p) = wn cs p.
Proof.
  destruct (Nat.eq_dec (length cs) 0) as [E|E].
  - destruct cs; [reflexivity|discriminate].
  - unfold child_wns, fan. rewrite map_map.
    rewrite (map_ext_in _ (fun i => (cr (nth i cs origin) (nth ((i + 1) mod length cs) cs origin) p
              + (cr (nth ((i + 1) mod length cs) cs origin) c p + - cr (nth i cs origin) c p))%Z))
      by (intros i Hi; apply in_seq in Hi; apply fan_child_wn; lia).
    rewrite zsum_map_add, zsum_map_add, zsum_map_opp.
    rewrite (zsum_shift (fun k => cr (nth k cs origin) c p)) by lia.
    rewrite wn_nth. lia.
Qed.
Lemma fan_children_good (cs : list pt) (c : pt) : interior cs c -> children_good cs c 0 (fan (length cs)).
Proof.
  unfold interior, children_good, fan. intro H. rewrite Forall_forall in H. apply Forall_forall.
  intros ch Hch. apply in_map_iff in Hch. destruct Hch as [i [<- Hi]]. specialize (H i Hi).
  apply in_seq in Hi. rewrite gen_fan_child_shape. cbn [map vpos good_poly].
  rewrite tri_orient in H. unfold corner in *. cbn [Nat.add] in *.
  rewrite Nat.add_0_r in H. rewrite Nat.mod_mod by lia. lra.
Qed.
Lemma fan_tiles_ (cs : list pt) (c : pt) : interior cs c ->
  forall p, zsum (child_wns cs c 0 (fan (length cs)) p) = wn cs p /\
            (wn cs p = 1%Z -> exactly_one (child_wns cs c 0 (fan (length cs)) p)) /\
            (wn cs p = 0%Z -> forall j, nth j (child_wns cs c 0 (fan (length cs)) p) 0%Z = 0%Z).
Proof.
  intros Hi p. pose proof (fan_wn_ cs c p) as E.
  pose proof (children_good_01 cs c 0 _ p (fan_children_good cs c Hi)) as H01.
  split; [exact E|]. split; intro Hw.
  - apply all01_sum1; auto. congruence.
  - apply all01_sum0; auto. congruence.
Qed.

Lemma split_then_triangulate_tiles_ (cs : list pt) (c_old : pt) i0 :
  length cs = 4 -> i0 < 4 -> convex_ccw cs ->
  let kept := split_kept cs c_old i0 in
  let c' := split_new_centre c_old kept in
  length kept = 3 /\ convex_ccw kept /\ interior kept c' /\
  forall p, zsum (child_wns kept c' 0 (fan 3) p) = wn kept p /\
            (wn kept p = 1%Z -> exactly_one (child_wns kept c' 0 (fan 3) p)) /\
            (wn kept p = 0%Z -> forall j, nth j (child_wns kept c' 0 (fan 3) p) 0%Z = 0%Z).
Proof.
  intros Hl Hi Hc kept c'.
  pose proof (split_good_gen cs c_old i0 Hl Hi Hc) as Hg. unfold children_good in Hg.
  assert (Hk : good_poly kept).
  { rewrite Forall_forall in Hg. apply Hg. unfold split_entry. apply nth_In. vm_compute. lia. }
  assert (Hlen : length kept = 3) by (unfold kept, split_kept; rewrite map_length; vm_compute; reflexivity).
  destruct kept as [|a [|b [|c [|x r]]]] eqn:E; try discriminate Hlen. cbn [good_poly] in Hk.
  pose proof (good_tri_convex a b c Hk) as Hcv.
  assert (Hin : interior [a; b; c] c').
  { unfold c', split_new_centre. change gen_split_recentre with true. cbv iota. apply centroid_ok_tri; auto. }
  split; [reflexivity|]. split; [auto|]. split; [auto|].
  apply (fan_tiles_ [a; b; c] c' Hin).
Qed.

(** ** decompose_column: whichever branch it takes, every point keeps its multiplicity *)
Lemma decompose_entry_wn_ nn ns d rule e start (cs : list pt) (c p : pt) :
  In ((nn, ns, d), rule, e) decompose_table -> length cs = nn -> start < nn -> 3 <= nn <= 16 ->
  zsum (child_wns cs c start e p) = wn cs p.
Proof.
  intros Hin Hl Hs Hn. subst nn.
  apply (subdivision_wn_ cs c start [] e p).
  - eapply decompose_entry_boundary_; eauto.
  - apply expected_nodup_nil; auto.
Qed.
Lemma decompose_table_sizes_ok : forallb (fun x => match x with ((nn, _, _), _, _) => (3 <=? nn) && (nn <=? 16) end) decompose_table = true.
Proof. vm_compute. reflexivity. Qed.
Lemma decompose_table_sizes nn ns d rule e : In ((nn, ns, d), rule, e) decompose_table -> 3 <= nn <= 16.
Proof.
  intro Hin. pose proof decompose_table_sizes_ok as H. rewrite forallb_forall in H. specialize (H _ Hin).
  cbn beta iota in H. apply andb_true_iff in H. destruct H as [H1 H2]. apply Nat.leb_le in H1, H2. lia.
Qed.
Lemma apply_rule_wn nn straight re start e (cs : list pt) c p :
  (exists d, In ((nn, length straight, d), fst re, snd re) decompose_table) ->
  apply_rule nn straight re = DSub start e -> length cs = nn -> start < nn ->
  zsum (child_wns cs c start e p) = wn cs p.
Proof.
  intros [d Hin] Ha Hl Hs. destruct (apply_rule_cases _ _ _ _ _ Ha) as [->|[-> ->]].
  - eapply decompose_entry_wn_; eauto. eapply decompose_table_sizes; eauto.
  - subst nn. apply fan_wn_.
Qed.
Lemma decompose_column_crossing_ (cs : list pt) (c p : pt) (straight : list nat) start e :
  decompose_model (length cs) straight = DSub start e -> start < length cs ->
  zsum (child_wns cs c start e p) = wn cs p.
Proof.
  unfold decompose_model. set (nn := length cs).
  destruct (nn <=? 4); [discriminate|].
  assert (Hfan : DSub 0 (fan nn) = DSub start e -> zsum (child_wns cs c start e p) = wn cs p).
  { intro H. inversion H; subst. apply fan_wn_. }
  destruct (nn <=? 8); [|intros H _; auto].
  destruct (assoc_d nn (length straight) None decompose_table) as [re|] eqn:E1.
  - intros H Hs. eapply apply_rule_wn; eauto. eapply assoc_d_In; eauto.
  - destruct (has_d_entries nn (length straight) decompose_table); [|intros H _; auto].
    destruct straight as [|s0 [|s1 r]]; try discriminate.
    destruct (assoc_d nn (length (s0 :: s1 :: r)) (Some (index_dist nn s0 s1)) decompose_table) as [re|] eqn:E2; [|intros H _; auto].
    intros H Hs. eapply apply_rule_wn; eauto. eapply assoc_d_In; eauto.
Qed.
(** partial: that the new columns are positively oriented triangles / convex quadrilaterals is a
    HYPOTHESIS here (it depends on where the straight nodes lie: see decompose_7_3_refuted) *)
Lemma decompose_column_tiles_partial_ (cs : list pt) (c : pt) (straight : list nat) start e :
  decompose_model (length cs) straight = DSub start e -> start < length cs ->
  children_good cs c start e ->
  forall p, (wn cs p = 1%Z -> exactly_one (child_wns cs c start e p)) /\
            (wn cs p = 0%Z -> forall j, nth j (child_wns cs c start e p) 0%Z = 0%Z).
Proof.
  intros Hd Hs Hg p. pose proof (decompose_column_crossing_ cs c p straight start e Hd Hs) as E.
  pose proof (children_good_01 cs c start e p Hg) as H01. split; intro Hw.
  - apply all01_sum1; auto. congruence.
  - apply all01_sum0; auto. congruence.
Qed.

(** ** decompose_column: complete case analysis.  Its result is the fan or a table entry; entries
    (and the fan) all of whose new columns contain the centre node tile for ANY position of the
    straight nodes as soon as the centre has every side strictly on its left; the three
    centre-less entries tile in the layouts their guards select (Layouts.v). *)
Lemma decompose_model_result nn straight start e :
  decompose_model nn straight = DSub start e ->
  (start = 0 /\ e = fan nn) \/ exists ns d rule, In ((nn, ns, d), rule, e) decompose_table.
Proof.
  unfold decompose_model. destruct (nn <=? 4); [discriminate|].
  destruct (nn <=? 8); [|intro H; inversion H; auto].
  destruct (assoc_d nn (length straight) None decompose_table) as [re|] eqn:E1.
  - intro H. destruct (apply_rule_cases _ _ _ _ _ H) as [->|[-> ->]]; [right|left; auto].
    destruct (assoc_d_In _ _ _ _ _ E1) as [d' Hd]. exists (length straight), d', (fst re). exact Hd.
  - destruct (has_d_entries nn (length straight) decompose_table); [|intro H; inversion H; auto].
    destruct straight as [|s0 [|s1 r]]; try discriminate.
    destruct (assoc_d nn (length (s0 :: s1 :: r)) (Some (index_dist nn s0 s1)) decompose_table) as [re|] eqn:E2;
      [|intro H; inversion H; auto].
    intro H. destruct (apply_rule_cases _ _ _ _ _ H) as [->|[-> ->]]; [right|left; auto].
    destruct (assoc_d_In _ _ _ _ _ E2) as [d' Hd]. exists (length (s0 :: s1 :: r)), d', (fst re). exact Hd.
Qed.
Lemma fan_all_centre n : all_centre (fan n) = true.
Proof.
  unfold all_centre, fan. apply forallb_forall. intros ch Hch. apply in_map_iff in Hch.
  destruct Hch as [i [<- _]]. rewrite gen_fan_child_shape. reflexivity.
Qed.
Lemma decompose_centre_tiles_ (cs : list pt) (c : pt) (straight : list nat) start e :
  decompose_model (length cs) straight = DSub start e -> start < length cs ->
  interior cs c -> all_centre e = true ->
  children_simple cs c start e /\ tiles cs (children_polys cs c start e).
Proof.
  intros Hd Hs Hi Hc.
  assert (Hsimple : children_simple cs c start e).
  { destruct (decompose_model_result _ _ _ _ Hd) as [[-> ->]|(ns & d & rule & Hin)].
    - apply children_good_simple. apply fan_children_good; auto.
    - apply (decompose_table_simple_gen _ _ _ _ _ Hin Hc); auto. }
  split; auto. intro p. rewrite wns_children. split; [apply children_simple_01; auto|].
  eapply decompose_column_crossing_; eauto.
Qed.
Lemma decompose_good_tiles_ (cs : list pt) (c : pt) (straight : list nat) start e :
  decompose_model (length cs) straight = DSub start e -> start < length cs ->
  children_good cs c start e -> tiles cs (children_polys cs c start e).
Proof.
  intros Hd Hs Hg p. rewrite wns_children. split; [apply children_good_01; auto|].
  eapply decompose_column_crossing_; eauto.
Qed.
Lemma rotl_length {X} r (l : list X) : length (rotl r l) = length l.
Proof. unfold rotl. rewrite app_length, skipn_length, firstn_length. lia. Qed.

Lemma decompose_5_1_tiles_ (A B C D : pt) (t : R) (c : pt) (r start : nat) (e : entry) :
  convex_ccw [A; B; C; D] -> (0 < t < 1)%R -> r < 5 ->
  decompose_model 5 (straight_rot 5 [0] r) = DSub start e ->
  let cs := rotl r (pent_layout A B C D t) in
  children_good cs c start e /\ tiles cs (children_polys cs c start e).
Proof.
  intros Hc Ht Hr Hd cs. destruct (pent_good_ A B C D t c r start e Hc Ht Hr Hd) as [Hs Hg].
  split; auto. apply (decompose_good_tiles_ cs c (straight_rot 5 [0] r)); auto; unfold cs; rewrite rotl_length; auto.
Qed.
Lemma decompose_6_2_3_tiles_ (A B C D : pt) (t0 t1 : R) (c : pt) (r start : nat) (e : entry) :
  convex_ccw [A; B; C; D] -> (0 < t0 < 1)%R -> (0 < t1 < 1)%R -> r < 6 ->
  decompose_model 6 (straight_rot 6 [0; 3] r) = DSub start e ->
  let cs := rotl r (hex_layout A B C D t0 t1) in
  children_good cs c start e /\ tiles cs (children_polys cs c start e).
Proof.
  intros Hc H0 H1 Hr Hd cs. destruct (hex_good_ A B C D t0 t1 c r start e Hc H0 H1 Hr Hd) as [Hs Hg].
  split; auto. apply (decompose_good_tiles_ cs c (straight_rot 6 [0; 3] r)); auto; unfold cs; rewrite rotl_length; auto.
Qed.
Lemma decompose_7_3_tiles_ (A B C D : pt) (t0 t1 t2 : R) (c : pt) (r start : nat) (e : entry) :
  convex_ccw [A; B; C; D] -> (0 < t0 < 1)%R -> (0 < t1 < 1)%R -> (0 < t2 < 1)%R -> r < 7 ->
  decompose_model 7 (straight_layout r) = DSub start e ->
  let cs := rotl r (hept_layout A B C D t0 t1 t2) in
  children_good cs c start e /\ tiles cs (children_polys cs c start e).
Proof.
  intros Hc H0 H1 H2 Hr Hd cs. destruct (hept_good_ A B C D t0 t1 t2 c r start e Hc H0 H1 H2 Hr Hd) as [Hs Hg].
  split; auto. apply (decompose_good_tiles_ cs c (straight_layout r)); auto; unfold cs; rewrite rotl_length; auto.
Qed.

(** coverage: every result of decompose_model is centre-based or one of the three entries above *)
Definition key_eqb (a b : nat * nat * option nat) : bool :=
  match a, b with (n, s, d), (n', s', d') => (n =? n') && (s =? s') && opt_nat_eqb d d' end.
Definition centreless_keys : list (nat * nat * option nat) := [(5, 1, None); (6, 2, Some 3); (7, 3, None)].
Definition decompose_cover_ok : bool :=
  forallb (fun x => match x with (k, _, e) => all_centre e || existsb (key_eqb k) centreless_keys end) decompose_table.
Lemma decompose_cover_ok_true : decompose_cover_ok = true.
Proof. vm_compute. reflexivity. Qed.
Lemma decompose_cases_covered_ nn straight start e :
  decompose_model nn straight = DSub start e ->
  all_centre e = true \/ exists k rule, In (k, rule, e) decompose_table /\ existsb (key_eqb k) centreless_keys = true.
Proof.
  intro Hd. destruct (decompose_model_result _ _ _ _ Hd) as [[-> ->]|(ns & d & rule & Hin)].
  - left. apply fan_all_centre.
  - pose proof decompose_cover_ok_true as H. unfold decompose_cover_ok in H. rewrite forallb_forall in H.
    specialize (H _ Hin). cbn beta iota in H. apply orb_true_iff in H. destruct H as [H|H]; [left; auto|].
    right. exists (nn, ns, d), rule. auto.
Qed.

(** ** the modelled operations are tiling steps (relation [tiles] of Tiling.v) *)
Lemma refine_is_tiling_step_ (cs : list pt) (c : pt) (sides : list nat) :
  length cs = 3 \/ length cs = 4 -> is_side_set (length cs) sides = true -> sides <> [] ->
  convex_ccw cs -> interior cs c -> centre_ok cs c ->
  exists istart e, refine_children (length cs) sides = Some (istart, e) /\ tiles cs (children_polys cs c istart e).
Proof.
  intros Hnn Hs Hne Hc Hi Hce.
  destruct (refine_column_tiles_ cs c sides Hnn Hs Hne Hc Hi Hce) as (istart & e & Hr & Hg & Ht & _).
  exists istart, e. split; auto. intro p. rewrite wns_children. split; [apply children_good_01; auto|apply Ht].
Qed.
Lemma split_is_tiling_step_ (cs : list pt) (c : pt) i0 :
  length cs = 4 -> i0 < 4 -> convex_ccw cs -> tiles cs (children_polys cs c i0 split_entry).
Proof.
  intros Hl Hi Hc. destruct (split_column_tiles_ cs c i0 Hl Hi Hc) as (_ & Hg & Ht & _).
  intro p. rewrite wns_children. split; [apply children_good_01; auto|apply Ht].
Qed.
Lemma triangulate_is_tiling_step_ (cs : list pt) (c : pt) :
  interior cs c -> tiles cs (children_polys cs c 0 (fan (length cs))).
Proof.
  intros Hi p. rewrite wns_children. split; [apply children_good_01; apply fan_children_good; auto|apply fan_wn_].
Qed.

(** ** conformity lifted from one column to a shared side, with the dict sidenodes as a finite map *)
Lemma in_named_boundary (col : list nat) cid nn istart e sides g :
  eseteq (boundary (all_edges nn istart e)) (expected_boundary nn sides) = true ->
  In g (map (gname_edge col cid) (expected_boundary nn sides)) ->
  In g (map (gname_edge col cid) (boundary (all_edges nn istart e))).
Proof.
  intros Hs Hg. apply in_map_iff in Hg. destruct Hg as [x [<- Hx]]. apply in_map.
  unfold eseteq, esubset in Hs. apply andb_true_iff in Hs. destruct Hs as [_ H2].
  rewrite forallb_forall in H2. apply emem_In. auto.
Qed.
Lemma gside_in_flat sn col i : i < length col ->
  forall g, In g (gside sn col i) -> In g (flat_map (gside sn col) (seq 0 (length col))).
Proof. intros Hi g Hg. apply in_flat_map. exists i. split; [apply in_seq; lia|auto]. Qed.

Lemma refine_shared_side_ (m : smap) (A B : list nat) (cidA cidB i j : nat) :
  length A = 3 \/ length A = 4 -> length B = 3 \/ length B = 4 -> i < length A -> j < length B ->
  node_at A i = node_at B ((j + 1) mod length B) ->
  node_at A ((i + 1) mod length A) = node_at B j ->
  sn_of m (side_pair A i) = true ->
  slookup (side_pair A i) m = slookup (side_pair B j) m /\
  exists iA eA iB eB,
    refine_children (length A) (refined_sides (sn_of m) A) = Some (iA, eA) /\
    refine_children (length B) (refined_sides (sn_of m) B) = Some (iB, eB) /\
    forall g, In g (gside (sn_of m) A i) ->
      In g (map (gname_edge A cidA) (boundary (all_edges (length A) iA eA))) /\
      In (gswap g) (map (gname_edge B cidB) (boundary (all_edges (length B) iB eB))).
Proof.
  intros HA HB Hi Hj H1 H2 Hsn.
  assert (Ekey : side_pair A i = side_pair B j) by (unfold side_pair; rewrite H1, H2; apply upair_comm).
  split; [now rewrite Ekey|].
  assert (NA : refined_sides (sn_of m) A <> []).
  { intro E. pose proof (nmem_refined (sn_of m) A i Hi) as N. rewrite E, Hsn in N. discriminate. }
  assert (NB : refined_sides (sn_of m) B <> []).
  { intro E. pose proof (nmem_refined (sn_of m) B j Hj) as N. rewrite E, <- Ekey, Hsn in N. discriminate. }
  destruct (refine_boundary_named_ (sn_of m) A cidA HA NA) as (iA & eA & RA & SA & MA).
  destruct (refine_boundary_named_ (sn_of m) B cidB HB NB) as (iB & eB & RB & SB & MB).
  exists iA, eA, iB, eB. split; [auto|]. split; [auto|]. intros g Hg. split.
  - apply (in_named_boundary A cidA _ _ _ _ g SA). rewrite MA. apply (gside_in_flat _ _ i Hi); auto.
  - apply (in_named_boundary B cidB _ _ _ _ (gswap g) SB). rewrite MB. apply (gside_in_flat _ _ j Hj).
    rewrite (refine_conforming_ (sn_of m) A B i j H1 H2). apply in_map. rewrite <- in_rev. auto.
Qed.

Lemma good_polygon_indicator_ (l : list pt) (p : pt) : good_poly l ->
  (wn l p = 0%Z \/ wn l p = 1%Z) /\ (strictly_inside l p -> wn l p = 1%Z) /\ (wn l p = 1%Z -> inside_closed l p).
Proof. intro G. split; [exact (good_wn_01 l p G)|split; [exact (good_inside_wn l p G)|exact (good_wn_inside l p G)]]. Qed.
Lemma sidenode_created_is_found_ a b a' b' n (m : smap) : upair a b = upair a' b' ->
  slookup (upair a' b') (create_mid_node a b n m) = Some n /\ slookup (upair b' a') (create_mid_node a b n m) = Some n.
Proof. intro E. split; [exact (create_then_lookup a b a' b' n m E)|rewrite <- lookup_unordered; exact (create_then_lookup a b a' b' n m E)]. Qed.

(** non-vacuity *)
Example ex_good_children :
  exists istart e, refine_children 4 [0; 1; 2; 3] = Some (istart, e) /\
    children_good [(0, 0); (4, 0); (5, 3); (-1, 2)]%R (2, 1)%R istart e /\ length e = 4.
Proof. eexists; eexists. split; [vm_compute; reflexivity|]. split; [|reflexivity].
  crunch. repeat (apply Forall_cons; [repeat split; lra|]). apply Forall_nil. Qed.
Example ex_shared_side :
  let m := create_mid_node 2 3 100 [] in
  let A := [1; 2; 3; 4] in let B := [3; 2; 7] in
  node_at A 1 = node_at B ((0 + 1) mod length B) /\ node_at A ((1 + 1) mod length A) = node_at B 0 /\
  sn_of m (side_pair A 1) = true /\ slookup (side_pair B 0) m = Some 100.
Proof. cbv. auto. Qed.
Example ex_centre_ok_square :
  centre_ok [(0, 0); (1, 0); (1, 1); (0, 1)]%R (1 / 2, 1 / 2)%R /\
  centre_ok [(0, 0); (4, 0); (5, 3); (-1, 2)]%R (2, 1)%R.
Proof. split; crunch; repeat (apply Forall_cons; [lra|]); apply Forall_nil. Qed.
