(** C11 -- tiling: the new columns of a subdivision cover every point exactly as often as the
    old column did.

    [subdivision_wn]: for ANY table entry that passes the combinatorial check
    [Comb.subdivision_ok] (no directed edge twice, interior edges in opposite pairs, what is
    left is the parent's boundary with the refined sides split at their mid-side nodes), ANY
    real corner coordinates, ANY centre node and ANY point p of the plane (on an edge, at a
    vertex, outside: no general-position assumption),

        sum over the children of  wn child p  =  wn parent p.

    [exactly_one]: when moreover every child's crossing number is 0 or 1 (positively oriented
    triangles and strictly convex quadrilaterals: Cross.good_wn_01), a point with  wn parent p = 1
    lies in exactly one child and a point with  wn parent p = 0  in none. *)
From Coq Require Import List Arith Bool ZArith Reals Lra Lia Permutation.
From P Require Import Geom Comb Cross.
Import ListNotations.
Open Scope nat_scope.

(** position of a resolved vertex *)
Definition rpos (cs : list pt) (c : pt) (v : rvtx) : pt :=
  match v with
  | RC k => nth k cs origin
  | RM k l => pmid (nth k cs origin) (nth l cs origin)
  | RCen => c
  end.
Lemma pmid_comm a b : pmid a b = pmid b a.
Proof. unfold pmid. f_equal; lra. Qed.
Lemma vpos_rpos cs c istart v : vpos cs c istart v = rpos cs c (resolve (length cs) istart v).
Proof.
  destruct v as [i|i j|]; cbn [vpos resolve rpos]; auto. unfold corner.
  destruct (Nat.le_ge_cases ((istart + i) mod length cs) ((istart + j) mod length cs)) as [H|H].
  - rewrite Nat.min_l, Nat.max_r by auto. reflexivity.
  - rewrite Nat.min_r, Nat.max_l by auto. apply pmid_comm.
Qed.

Definition ecr (cs : list pt) (c p : pt) (e : edge) : Z := cr (rpos cs c (fst e)) (rpos cs c (snd e)) p.
Definition esum (cs : list pt) (c p : pt) (es : list edge) : Z := zsum (map (ecr cs c p) es).

Lemma pairs_from_cpairs first l : pairs_from first l = cpairs first l.
Proof.
  induction l as [|a r IH]; [reflexivity|]. destruct r as [|b r']; [reflexivity|].
  change (pairs_from first (a :: b :: r')) with ((a, b) :: pairs_from first (b :: r')).
  change (cpairs first (a :: b :: r')) with ((a, b) :: cpairs first (b :: r')).
  now rewrite IH.
Qed.
Lemma cyc_edges_cyc l : cyc_edges l = cyc l.
Proof. destruct l; [reflexivity|]. apply pairs_from_cpairs. Qed.

(** the crossing number of a child polygon = sum over its directed edges *)
Lemma wn_child cs c istart ch p :
  wn (map (vpos cs c istart) ch) p = esum cs c p (cyc_edges (map (resolve (length cs) istart) ch)).
Proof.
  rewrite (map_ext _ _ (vpos_rpos cs c istart)), <- (map_map (resolve (length cs) istart) (rpos cs c)).
  unfold wn, esum. rewrite cyc_map, cyc_edges_cyc, map_map. reflexivity.
Qed.
Lemma esum_app cs c p a b : esum cs c p (a ++ b) = (esum cs c p a + esum cs c p b)%Z.
Proof. unfold esum. now rewrite map_app, zsum_app. Qed.
Lemma children_wn_sum cs c istart e p :
  zsum (map (fun ch => wn (map (vpos cs c istart) ch) p) e) = esum cs c p (all_edges (length cs) istart e).
Proof.
  unfold all_edges. induction e as [|ch e IH]; [reflexivity|].
  cbn [map zsum flat_map]. rewrite esum_app, IH, wn_child. reflexivity.
Qed.

(** ** boolean edge sets versus lists *)
Lemma edge_eqb_eq e f : edge_eqb e f = true <-> e = f.
Proof.
  destruct e as [a b], f as [a' b']. unfold edge_eqb. cbn [fst snd].
  rewrite andb_true_iff, !rvtx_eqb_eq. split; [intros [-> ->]; auto|intro H; inversion H; auto].
Qed.
Lemma emem_In e l : emem e l = true <-> In e l.
Proof.
  unfold emem. rewrite existsb_exists. split.
  - intros [x [Hx He]]. apply edge_eqb_eq in He. now subst.
  - intro H. exists e. split; auto. now apply edge_eqb_eq.
Qed.
Lemma enodup_NoDup l : enodup l = true -> NoDup l.
Proof.
  induction l as [|e r IH]; [constructor|]. cbn [enodup]. rewrite andb_true_iff, negb_true_iff.
  intros [H1 H2]. constructor; auto. intro Hin. apply emem_In in Hin. congruence.
Qed.
Lemma eswap_invol e : eswap (eswap e) = e.
Proof. destruct e; reflexivity. Qed.

Section Sums.
Variables (cs : list pt) (c p : pt).
Lemma ecr_swap e : ecr cs c p (eswap e) = (- ecr cs c p e)%Z.
Proof. destruct e as [a b]. unfold ecr, eswap. cbn [fst snd]. apply cr_swap. Qed.
Lemma esum_map_swap l : esum cs c p (map eswap l) = (- esum cs c p l)%Z.
Proof.
  unfold esum. induction l as [|e r IH]; [reflexivity|]. cbn [map zsum]. rewrite IH, ecr_swap. ring.
Qed.
Lemma esum_perm l l' : Permutation l l' -> esum cs c p l = esum cs c p l'.
Proof.
  unfold esum. induction 1; cbn [map zsum]; try lia.
Qed.
Lemma esum_filter_split f l :
  esum cs c p l = (esum cs c p (filter f l) + esum cs c p (filter (fun e => negb (f e)) l))%Z.
Proof.
  unfold esum. induction l as [|e r IH]; [reflexivity|]. cbn [filter map zsum].
  destruct (f e); cbn [negb map zsum]; lia.
Qed.
(** a duplicate-free set of directed edges closed under reversal contributes nothing *)
Lemma esum_closed_zero l : NoDup l -> (forall e, In e l -> In (eswap e) l) -> esum cs c p l = 0%Z.
Proof.
  intros Hnd Hcl.
  assert (Hp : Permutation l (map eswap l)).
  { apply NoDup_Permutation_bis; auto.
    - rewrite map_length. lia.
    - intros e He. rewrite <- (eswap_invol e). apply in_map. auto. }
  pose proof (esum_perm _ _ Hp) as H. rewrite esum_map_swap in H. lia.
Qed.
(** interior edges cancel *)
Lemma esum_boundary es : enodup es = true -> esum cs c p es = esum cs c p (boundary es).
Proof.
  intro Hnd. apply enodup_NoDup in Hnd.
  rewrite (esum_filter_split (fun e => emem (eswap e) es) es). fold (boundary es).
  rewrite esum_closed_zero; [lia|apply NoDup_filter; auto|].
  intros e He. apply filter_In in He. destruct He as [He Hs]. apply emem_In in Hs.
  apply filter_In. split; auto. rewrite eswap_invol. now apply emem_In.
Qed.
Lemma esum_seteq a b : NoDup a -> NoDup b -> eseteq a b = true -> esum cs c p a = esum cs c p b.
Proof.
  intros Ha Hb H. apply esum_perm. apply NoDup_Permutation; auto.
  unfold eseteq, esubset in H. apply andb_true_iff in H. destruct H as [H1 H2].
  rewrite forallb_forall in H1, H2. intro e. split; intro He.
  - apply emem_In. auto.
  - apply emem_In. auto.
Qed.

(** the parent's boundary, refined sides split at their mid-points, counts as the parent *)
Lemma esum_side_part sides i : i < length cs ->
  esum cs c p (side_part (length cs) sides i) = cr (nth i cs origin) (nth ((i + 1) mod length cs) cs origin) p.
Proof.
  intro Hi. unfold side_part. destruct (nmem i sides).
  - unfold esum, ecr. cbn [map zsum fst snd]. unfold side_mid. cbn [rpos].
    set (j := (i + 1) mod length cs).
    assert (E : pmid (nth (Nat.min i j) cs origin) (nth (Nat.max i j) cs origin) = pmid (nth i cs origin) (nth j cs origin)).
    { destruct (Nat.le_ge_cases i j) as [H|H].
      - now rewrite Nat.min_l, Nat.max_r by auto.
      - rewrite Nat.min_r, Nat.max_l by auto. apply pmid_comm. }
    rewrite E, Z.add_0_r. apply cr_split.
  - unfold esum, ecr. cbn [map zsum fst snd rpos]. lia.
Qed.
Lemma esum_expected sides :
  esum cs c p (expected_boundary (length cs) sides) =
  zsum (map (fun i => cr (nth i cs origin) (nth ((i + 1) mod length cs) cs origin) p) (seq 0 (length cs))).
Proof.
  unfold expected_boundary.
  assert (H : forall l, (forall i, In i l -> i < length cs) ->
            esum cs c p (flat_map (side_part (length cs) sides) l) =
            zsum (map (fun i => cr (nth i cs origin) (nth ((i + 1) mod length cs) cs origin) p) l)).
  { induction l as [|i l IH]; intro Hl; [reflexivity|].
    cbn [flat_map map zsum]. rewrite esum_app, esum_side_part by (apply Hl; left; auto).
    rewrite IH; [reflexivity|]. intros; apply Hl; right; auto. }
  apply H. intros i Hi. apply in_seq in Hi. lia.
Qed.
End Sums.

Lemma cpairs_nth {A} (d first : A) l :
  cpairs first l = map (fun i => (nth i l d, nth (S i) (l ++ [first]) d)) (seq 0 (length l)).
Proof.
  induction l as [|a r IH]; [reflexivity|]. destruct r as [|b r']; [reflexivity|].
  change (cpairs first (a :: b :: r')) with ((a, b) :: cpairs first (b :: r')). rewrite IH.
  change (length (a :: b :: r')) with (S (length (b :: r'))).
  cbn [seq map]. f_equal. rewrite <- seq_shift, map_map. apply map_ext. intro i. reflexivity.
Qed.
Lemma cyc_nth {A} (d : A) l :
  cyc l = map (fun i => (nth i l d, nth ((i + 1) mod length l) l d)) (seq 0 (length l)).
Proof.
  destruct l as [|a r]; [reflexivity|]. unfold cyc. rewrite (cpairs_nth d). apply map_ext_in.
  intros i Hi. apply in_seq in Hi. f_equal. set (n := length (a :: r)) in *.
  destruct (Nat.eq_dec (i + 1) n) as [E|E].
  - rewrite E, Nat.mod_same by lia. rewrite app_nth2 by (fold n; lia). fold n.
    replace (S i - n) with 0 by lia. reflexivity.
  - rewrite Nat.mod_small by lia. rewrite app_nth1 by (fold n; lia). f_equal. lia.
Qed.
Lemma wn_nth cs p :
  wn cs p = zsum (map (fun i => cr (nth i cs origin) (nth ((i + 1) mod length cs) cs origin) p) (seq 0 (length cs))).
Proof. unfold wn. rewrite (cyc_nth origin), map_map. reflexivity. Qed.

(** ** every point is covered by the children with the multiplicity of the parent *)
Theorem subdivision_wn_ cs c istart sides e p :
  subdivision_ok (length cs) istart sides e = true ->
  enodup (expected_boundary (length cs) sides) = true ->
  zsum (map (fun ch => wn (map (vpos cs c istart) ch) p) e) = wn cs p.
Proof.
  intros Hs Hx. unfold subdivision_ok in Hs. rewrite !andb_true_iff in Hs. destruct Hs as [[_ Hnd] Hb].
  rewrite children_wn_sum, (esum_boundary _ _ _ _ Hnd), wn_nth, <- (esum_expected cs c p sides).
  apply esum_seteq; auto.
  - apply NoDup_filter. apply enodup_NoDup; auto.
  - apply enodup_NoDup; auto.
Qed.

(** ** counting: integers 0/1 with sum 1 -- exactly one of them is 1 *)
Definition all01 (l : list Z) : Prop := Forall (fun x => x = 0%Z \/ x = 1%Z) l.
Definition exactly_one (l : list Z) : Prop :=
  exists i, i < length l /\ nth i l 0%Z = 1%Z /\ forall j, j < length l -> j <> i -> nth j l 0%Z = 0%Z.
Lemma all01_nonneg l : all01 l -> (0 <= zsum l)%Z.
Proof. induction 1 as [|x l Hx _ IH]; cbn [zsum]; lia. Qed.
Lemma all01_sum0 l : all01 l -> zsum l = 0%Z -> forall j, nth j l 0%Z = 0%Z.
Proof.
  induction 1 as [|x l Hx Hl IH]; intros Hs j; [destruct j; reflexivity|].
  cbn [zsum] in Hs. pose proof (all01_nonneg l Hl). destruct j; cbn [nth]; [lia|apply IH; lia].
Qed.
Lemma all01_sum1 l : all01 l -> zsum l = 1%Z -> exactly_one l.
Proof.
  induction 1 as [|x l Hx Hl IH]; intro Hs; [discriminate|].
  cbn [zsum] in Hs. pose proof (all01_nonneg l Hl). destruct Hx as [-> | ->].
  - destruct (IH ltac:(lia)) as (i & Hi & H1 & H0). exists (S i). cbn [length nth]. repeat split; [lia|auto|].
    intros [|j] Hj Hne; [reflexivity|]. apply H0; lia.
  - exists 0. cbn [length nth]. repeat split; [lia|].
    intros [|j] Hj Hne; [congruence|]. apply all01_sum0; auto. lia.
Qed.
Lemma exactly_one_unique l i j : exactly_one l -> i < length l -> j < length l ->
  nth i l 0%Z = 1%Z -> nth j l 0%Z = 1%Z -> i = j.
Proof.
  intros (k & Hk & H1 & H0) Hi Hj Ei Ej.
  destruct (Nat.eq_dec i k) as [->|Ni]; [|rewrite H0 in Ei by auto; discriminate].
  destruct (Nat.eq_dec j k) as [->|Nj]; [auto|rewrite H0 in Ej by auto; discriminate].
Qed.

(** the children's crossing numbers at p, in table order *)
Definition child_wns cs c istart (e : entry) (p : pt) : list Z := map (fun ch => wn (map (vpos cs c istart) ch) p) e.
Lemma children_good_01 cs c istart e p : children_good cs c istart e -> all01 (child_wns cs c istart e p).
Proof.
  unfold children_good, all01, child_wns. intro H. apply Forall_map.
  eapply Forall_impl; [|exact H]. intros ch Hg. apply good_wn_01; auto.
Qed.

Lemma children_simple_01 cs c istart e p : children_simple cs c istart e -> all01 (child_wns cs c istart e p).
Proof.
  unfold children_simple, all01, child_wns. intro H. apply Forall_map.
  eapply Forall_impl; [|exact H]. intros ch Hg. apply simple_wn_01; auto.
Qed.
Lemma children_good_simple cs c istart e : children_good cs c istart e -> children_simple cs c istart e.
Proof. unfold children_good, children_simple. intro H. eapply Forall_impl; [|exact H]. intros ch. apply good_simple. Qed.

(** a proper subdivision into positively oriented triangles / strictly convex quadrilaterals
    tiles: a point the parent contains lies in exactly one child, a point it does not contain
    in none -- for all points of the plane *)
Theorem subdivision_tiles_ cs c istart sides e :
  subdivision_ok (length cs) istart sides e = true ->
  enodup (expected_boundary (length cs) sides) = true ->
  children_good cs c istart e ->
  forall p, zsum (child_wns cs c istart e p) = wn cs p /\
            (wn cs p = 1%Z -> exactly_one (child_wns cs c istart e p)) /\
            (wn cs p = 0%Z -> forall j, nth j (child_wns cs c istart e p) 0%Z = 0%Z).
Proof.
  intros Hs Hx Hg p. pose proof (subdivision_wn_ cs c istart sides e p Hs Hx) as E.
  pose proof (children_good_01 cs c istart e p Hg) as H01. fold (child_wns cs c istart e p) in E.
  split; [exact E|]. split; intro Hw.
  - apply all01_sum1; auto. congruence.
  - apply all01_sum0; auto. congruence.
Qed.

(** in terms of orientations: the open interiors of two different children are disjoint, a
    point strictly inside a child lies in the closed parent (when the parent is itself a
    triangle / convex quadrilateral), a point strictly inside the parent lies in a closed child *)
Lemma nth_child_wns cs c istart e p j : j < length e ->
  nth j (child_wns cs c istart e p) 0%Z = wn (map (vpos cs c istart) (nth j e [])) p.
Proof.
  intro Hj. unfold child_wns. set (f := fun ch => wn (map (vpos cs c istart) ch) p).
  rewrite (nth_indep _ 0%Z (f [])) by (rewrite map_length; auto).
  apply (map_nth f).
Qed.
Theorem subdivision_tiles_orient_ cs c istart sides e :
  subdivision_ok (length cs) istart sides e = true ->
  enodup (expected_boundary (length cs) sides) = true ->
  children_good cs c istart e -> good_poly cs ->
  forall p,
    (forall i j, i < length e -> j < length e ->
       strictly_inside (map (vpos cs c istart) (nth i e [])) p ->
       strictly_inside (map (vpos cs c istart) (nth j e [])) p -> i = j) /\
    (forall i, i < length e -> strictly_inside (map (vpos cs c istart) (nth i e [])) p -> inside_closed cs p) /\
    (strictly_inside cs p -> exists i, i < length e /\ inside_closed (map (vpos cs c istart) (nth i e [])) p).
Proof.
  intros Hs Hx Hg Hpar p.
  destruct (subdivision_tiles_ cs c istart sides e Hs Hx Hg p) as (E & H1 & H0).
  assert (Hgi : forall i, i < length e -> good_poly (map (vpos cs c istart) (nth i e []))).
  { intros i Hi. unfold children_good in Hg. rewrite Forall_forall in Hg. apply Hg. apply nth_In; auto. }
  assert (Hin : forall i, i < length e -> strictly_inside (map (vpos cs c istart) (nth i e [])) p ->
                nth i (child_wns cs c istart e p) 0%Z = 1%Z).
  { intros i Hi Hsi. rewrite nth_child_wns by auto. apply good_inside_wn; auto. }
  assert (Hlen : length (child_wns cs c istart e p) = length e) by (unfold child_wns; apply map_length).
  assert (Hpar1 : forall i, i < length e -> strictly_inside (map (vpos cs c istart) (nth i e [])) p -> wn cs p = 1%Z).
  { intros i Hi Hsi. destruct (good_wn_01 cs p Hpar) as [W|W]; auto.
    specialize (H0 W i). rewrite (Hin i Hi Hsi) in H0. discriminate. }
  split; [|split].
  - intros i j Hi Hj Si Sj.
    apply (exactly_one_unique (child_wns cs c istart e p)); try (rewrite Hlen; auto); auto.
    apply H1. eapply Hpar1; eauto.
  - intros i Hi Si. apply good_wn_inside; auto. eapply Hpar1; eauto.
  - intro Sp. pose proof (good_inside_wn cs p Hpar Sp) as W. destruct (H1 W) as (i & Hi & Ei & _).
    rewrite Hlen in Hi. exists i. split; auto. apply good_wn_inside; auto. rewrite <- nth_child_wns; auto.
Qed.

(** ** composition.  [tiles P cols]: every point of the plane lies in exactly one of [cols] if P
    contains it and in none otherwise (crossing-number membership).  If op1 tiles P by columns
    among which C, and op2 tiles C by G, then replacing C by G still tiles P; hence every finite
    sequence of tiling steps applied to a mesh leaves every point covered exactly as before. *)
Definition wns (cols : list (list pt)) (p : pt) : list Z := map (fun l => wn l p) cols.
Definition tiles (P : list pt) (cols : list (list pt)) : Prop :=
  forall p, all01 (wns cols p) /\ zsum (wns cols p) = wn P p.
Definition children_polys cs c istart (e : entry) : list (list pt) := map (fun ch => map (vpos cs c istart) ch) e.
Lemma wns_children cs c istart e p : wns (children_polys cs c istart e) p = child_wns cs c istart e p.
Proof. unfold wns, children_polys, child_wns. now rewrite map_map. Qed.
Lemma wns_app a b p : wns (a ++ b) p = wns a p ++ wns b p.
Proof. unfold wns. apply map_app. Qed.
Lemma all01_app a b : all01 (a ++ b) <-> all01 a /\ all01 b.
Proof. unfold all01. apply Forall_app. Qed.
Lemma tiles_exactly_one P cols : tiles P cols ->
  forall p, (wn P p = 1%Z -> exactly_one (wns cols p)) /\ (wn P p = 0%Z -> forall j, nth j (wns cols p) 0%Z = 0%Z).
Proof.
  intros H p. destruct (H p) as [H01 Hs]. split; intro W.
  - apply all01_sum1; auto. congruence.
  - apply all01_sum0; auto. congruence.
Qed.
Theorem tiles_compose_ P l1 C l2 G : tiles P (l1 ++ C :: l2) -> tiles C G -> tiles P (l1 ++ G ++ l2).
Proof.
  intros HP HC p. destruct (HP p) as [A S]. destruct (HC p) as [A' S'].
  rewrite wns_app in A, S. change (C :: l2) with ([C] ++ l2) in A, S. rewrite wns_app in A, S.
  rewrite !wns_app. rewrite !all01_app in *. rewrite !zsum_app in *.
  cbn [wns map zsum] in S. split; [tauto|]. lia.
Qed.
(** one step: some column C of the mesh is replaced by columns G that tile it *)
Inductive step : list (list pt) -> list (list pt) -> Prop :=
| step_intro l1 C l2 G : tiles C G -> step (l1 ++ C :: l2) (l1 ++ G ++ l2).
Inductive steps : list (list pt) -> list (list pt) -> Prop :=
| steps_nil M : steps M M
| steps_cons M M' M'' : steps M M' -> step M' M'' -> steps M M''.
Lemma step_preserves M M' p : step M M' ->
  zsum (wns M' p) = zsum (wns M p) /\ (all01 (wns M p) -> all01 (wns M' p)).
Proof.
  intros [l1 C l2 G HC]. destruct (HC p) as [A' S'].
  change (C :: l2) with ([C] ++ l2). rewrite !wns_app, !zsum_app, !all01_app. cbn [wns map zsum].
  split; [lia|tauto].
Qed.
Theorem steps_preserve_ M M' : steps M M' ->
  forall p, zsum (wns M' p) = zsum (wns M p) /\ (all01 (wns M p) -> all01 (wns M' p)).
Proof.
  induction 1 as [M|M M' M'' _ IH Hs]; intro p; [tauto|].
  destruct (IH p) as [E A]. destruct (step_preserves _ _ p Hs) as [E' A']. split; [lia|tauto].
Qed.
(** the property text, for a whole mesh and a whole history of edits: a point that lay in exactly
    one column of the original mesh lies in exactly one column afterwards, a point that lay in
    none lies in none *)
Theorem steps_tile_ M M' : steps M M' -> forall p, all01 (wns M p) ->
  (zsum (wns M p) = 1%Z -> exactly_one (wns M' p)) /\
  (zsum (wns M p) = 0%Z -> forall j, nth j (wns M' p) 0%Z = 0%Z).
Proof.
  intros H p A. destruct (steps_preserve_ _ _ H p) as [E A']. split; intro W.
  - apply all01_sum1; auto. lia.
  - apply all01_sum0; auto. lia.
Qed.
(** the modelled operations are tiling steps *)
Lemma tiles_of_subdivision cs c istart sides e :
  subdivision_ok (length cs) istart sides e = true ->
  enodup (expected_boundary (length cs) sides) = true ->
  children_simple cs c istart e -> tiles cs (children_polys cs c istart e).
Proof.
  intros Hs Hx Hg p. rewrite wns_children. split; [apply children_simple_01; auto|].
  apply (subdivision_wn_ cs c istart sides e p Hs Hx).
Qed.
