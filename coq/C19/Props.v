(** C19 -- property theorems (being filled in) *)
From P Require Import Lib Transfer Generators.
