(** C19 -- property theorems only.  Each is closed by [exact] of a lemma proved in the other files of
    this directory and followed by Print Assumptions.

    Model: Transfer.v (mulgrid.column_mapping / layer_mapping / block_mapping, t2incon.transfer_from),
    Generators.v (t2data.transfer_generators_from).  [block_mapping self geo] is Python's
    [self.block_mapping(geo, True)]: [self] is the SOURCE, [geo] the TARGET.
    [nearest] is the nearest-neighbour search (cKDTree / numpy fallback); all that is assumed of it
    is [nearest_spec]: it returns an index of an element at minimal distance (ties arbitrary).
    [wf]: the boolean well-formedness predicate of Transfer.v (evaluated on every real geometry
    by the correspondence run). *)
From Coq Require Import Ascii String List Bool Arith ZArith QArith.
From PTBase Require Import Exn PyStr.
From P Require Import Lib Transfer Generators Wf MapProofs MapThms InconProofs GenProofs Witness.
Import ListNotations.
Close Scope Q_scope.

(** the hypothesis on the search is satisfiable: the extracted instance (first arg-min) meets it *)
Theorem nearest_exec_meets_spec : nearest_spec nearest_exec.
Proof. exact nearest_exec_spec. Qed.
Print Assumptions nearest_exec_meets_spec.

(** ** totality *)
(** for all 3 x 3 atmosphere arrangements: a mapping of exactly the target's blocks; every underground
    target block gets an existing underground source block, every atmosphere target block an existing
    atmosphere source block when the source has any *)
Theorem block_mapping_total : forall nearest, nearest_spec nearest -> forall self geo, wf self -> wf geo ->
  exists m cm, block_mapping nearest self geo = Ok (m, cm) /\ map fst m = block_name_list geo /\
    (forall b, In b (ug_blocks geo) -> exists sb, dget b m = Ok sb /\ In sb (ug_blocks self)) /\
    (gatm self <> Atm2 -> forall b, In b (atm_blocks geo) -> exists sb, dget b m = Ok sb /\ In sb (atm_blocks self)).
Proof. exact block_mapping_total_l. Qed.
Print Assumptions block_mapping_total.
Theorem block_mapping_total_hypotheses_satisfiable :
  nearest_spec nearest_exec /\ wf (src_low Atm1) /\ wf (dst_of Atm0) /\
  ug_blocks (dst_of Atm0) <> [] /\ atm_blocks (dst_of Atm0) <> [].
Proof. exact total_hyps_sat. Qed.
Print Assumptions block_mapping_total_hypotheses_satisfiable.
(** the arrangement that raised KeyError before the repair (fixed: finding block_mapping:target-atm0-source-not-atm0) *)
Theorem block_mapping_former_keyerror_example :
  exists m cm, block_mapping nearest_exec (src_of Atm1) (dst_of Atm0) = Ok (m, cm) /\
    dget (s2l "ATM 0") m = Ok (s2l "  a 0") /\ dget (s2l "  c 1") m = Ok (s2l "  b 1").
Proof. exact former_keyerror_example. Qed.
Print Assumptions block_mapping_former_keyerror_example.

(** the corresponding atmosphere block: the source's single one, or the one over the nearest column;
    a single target atmosphere block over a per-column source gets the block over the first source column *)
Theorem block_mapping_atmosphere : forall nearest, nearest_spec nearest -> forall self geo m cm, wf self -> wf geo ->
  block_mapping nearest self geo = Ok (m, cm) ->
  (gatm self = Atm0 -> forall b, In b (atm_blocks geo) -> dget b m = Ok (block_name self (l0name self) (atmcol self))) /\
  (gatm self = Atm1 -> forall col, In col (gcols geo) -> gatm geo = Atm1 ->
     exists sc, In sc (gcols self) /\
       (forall c', In c' (gcols self) -> (dist2 (ccentre col) (ccentre sc) <= dist2 (ccentre col) (ccentre c'))%Z) /\
       dget (cname col) cm = Ok (cname sc) /\
       dget (block_name geo (l0name geo) (cname col)) m = Ok (block_name self (l0name self) (cname sc))) /\
  (gatm self = Atm1 -> gatm geo = Atm0 ->
     dget (block_name geo (l0name geo) (atmcol geo)) m = Ok (block_name self (l0name self) (cname (first_col self)))).
Proof. exact block_mapping_atm_l. Qed.
Print Assumptions block_mapping_atmosphere.

(** ** nearest column, nearest layer, above-surface correction *)
(** every underground target block (layer [lay], column [col]) is assigned the block of
    - [sc]: a source column whose centre is at minimal distance from the centre of [col],
    - [sl]: the FIRST source layer (below the atmosphere layer) whose centre is at minimal distance
      from the centre of [lay],
    - [L] = [sl] when that block is below the surface of [sc], else the first layer of [sc] below
      ground;
    and that block exists in the source *)
Theorem block_mapping_nearest : forall nearest, nearest_spec nearest -> forall self geo m cm, wf self -> wf geo ->
  block_mapping nearest self geo = Ok (m, cm) ->
  forall lay col, In lay (tl (glayers geo)) -> In col (gcols geo) -> has_block lay col = true ->
  exists sc sl L i,
    In sc (gcols self) /\
    (forall c', In c' (gcols self) -> (dist2 (ccentre col) (ccentre sc) <= dist2 (ccentre col) (ccentre c'))%Z) /\
    dget (cname col) cm = Ok (cname sc) /\
    nth_error (tl (glayers self)) i = Some sl /\
    (forall l, In l (tl (glayers self)) -> (Z.abs (lcentre sl - lcentre lay) <= Z.abs (lcentre l - lcentre lay))%Z) /\
    (forall j l, j < i -> nth_error (tl (glayers self)) j = Some l ->
                 (Z.abs (lcentre sl - lcentre lay) < Z.abs (lcentre l - lcentre lay))%Z) /\
    ((lbottom sl < csurface sc)%Z -> L = sl) /\
    ((csurface sc <= lbottom sl)%Z -> first_below_ground self sc L) /\
    In L (tl (glayers self)) /\ has_block L sc = true /\
    dget (block_name geo (lname lay) (cname col)) m = Ok (block_name self (lname L) (cname sc)) /\
    In (block_name self (lname L) (cname sc)) (ug_blocks self).
Proof. exact block_mapping_nearest_l. Qed.
Print Assumptions block_mapping_nearest.

(** column_surface_layer (the layer used by the correction) is the first layer holding a block of the
    column: every layer before it is above ground; it exists for every column *)
Theorem above_surface_correction_exists : forall g c, wf g -> In c (gcols g) ->
  exists sl, column_surface_layer g c = Ok sl /\ first_below_ground g c sl.
Proof. exact surface_layer_first. Qed.
Print Assumptions above_surface_correction_exists.
Theorem above_surface_correction_example :
  exists m cm, block_mapping nearest_exec (src_low Atm1) (dst_of Atm1) = Ok (m, cm) /\
    dget (s2l "  c 1") m = Ok (s2l "  b 2") /\ dget (s2l "  c 2") m = Ok (s2l "  b 2") /\
    dget (s2l "  c 0") m = Ok (s2l "  b 0").
Proof. exact above_surface_example. Qed.
Print Assumptions above_surface_correction_example.

(** ** identity on equal grids *)
Theorem block_mapping_self_id : forall nearest, nearest_spec nearest -> forall g, wf g ->
  NoDup (map ccentre (gcols g)) -> NoDup (map lcentre (tl (glayers g))) ->
  exists cm, block_mapping nearest g g = Ok (map (fun b => (b, b)) (block_name_list g), cm) /\
             forall c, In c (gcols g) -> dget (cname c) cm = Ok (cname c).
Proof. exact block_mapping_self_id_l. Qed.
Print Assumptions block_mapping_self_id.
Theorem block_mapping_self_id_hypotheses_satisfiable :
  wf (src_low Atm0) /\ NoDup (map ccentre (gcols (src_low Atm0))) /\ NoDup (map lcentre (tl (glayers (src_low Atm0)))).
Proof. exact self_hyps_sat. Qed.
Print Assumptions block_mapping_self_id_hypotheses_satisfiable.

(** block names of a well-formed geometry are pairwise distinct (the dict has one entry per block) *)
Theorem block_names_distinct : forall g, wf g -> NoDup (block_name_list g).
Proof. exact block_name_list_nodup. Qed.
Print Assumptions block_names_distinct.

(** ** t2incon.transfer_from *)
(** whenever the transfer succeeds (default mappings or explicit ones): the new object holds exactly
    the target's blocks in the target's order, every underground block has exactly the state of its
    mapped source block, and the atmosphere blocks are copied / averaged / broadcast / defaulted
    as [atm_spec] lists for the nine arrangements *)
Theorem incon_transfer_spec : forall nearest, nearest_spec nearest -> forall maps sinc src geo new, wf src -> wf geo ->
  incon_transfer nearest maps sinc src geo = Ok new ->
  exists m cm,
    match maps with Some mc => mc = (m, cm) | None => block_mapping nearest src geo = Ok (m, cm) end /\
    map fst new = block_name_list geo /\
    (forall b, In b (ug_blocks geo) -> exists sb st, dget b m = Ok sb /\ dget sb sinc = Ok st /\ dget b new = Ok st) /\
    atm_spec sinc src geo cm new.
Proof. exact (fun nearest _ => incon_transfer_spec_l nearest). Qed.
Print Assumptions incon_transfer_spec.

(** sourceinc[0] is the source's atmosphere block when the source object is in geometry order *)
Theorem incon_first_is_atmosphere : forall sinc g, wf g -> gatm g = Atm0 -> map fst sinc = block_name_list g ->
  forall st, inc_first sinc = Ok st -> dget (atmblk g) sinc = Ok st.
Proof. exact incon_first_is_atm. Qed.
Print Assumptions incon_first_is_atmosphere.

(** with the default mappings the transfer succeeds for all nine arrangements whenever the source object
    has a state for every source block and all states have the same number of variables *)
Theorem incon_transfer_total : forall nearest, nearest_spec nearest -> forall sinc src geo, wf src -> wf geo ->
  covers sinc src -> uniform sinc ->
  exists new, incon_transfer nearest None sinc src geo = Ok new.
Proof. exact incon_transfer_total_l. Qed.
Print Assumptions incon_transfer_total.
Theorem incon_transfer_hypotheses_satisfiable :
  map fst sinc1 = block_name_list (src_of Atm1) /\ covers sinc1 (src_of Atm1) /\ uniform sinc1 /\
  exists new, incon_transfer nearest_exec None sinc1 (src_of Atm1) (dst_of Atm1) = Ok new /\
              map fst new = map s2l ["  c 0"; "  c 1"; "  c 2"]%string.
Proof. exact incon_hyps_sat. Qed.
Print Assumptions incon_transfer_hypotheses_satisfiable.
Theorem incon_transfer_average_example :
  exists new, incon_transfer nearest_exec (Some ([(s2l "  c 1", s2l "  b 1"); (s2l "  c 2", s2l "  b 2")], [(s2l "  c", s2l "  b")]))
                sinc1 (src_of Atm1) (dst_of Atm0) = Ok new /\
              dget (s2l "ATM 0") new = Ok (mkB [(4 # 1) / (2 # 1); (50 # 1) / (2 # 1)]%Q None None).
Proof. exact incon_average_example. Qed.
Print Assumptions incon_transfer_average_example.

(** the source object is only read: in the model it is an input that the transition hands back
    (true by construction of the functional model; the aliasing the Python code avoids with copy()
    is checked on the implementation by the oracle, not here) *)
Theorem incon_transfer_source_unchanged : forall nearest maps st src geo st',
  incon_transfer_st nearest maps st src geo = Ok st' -> fst st' = fst st.
Proof. exact incon_transfer_st_source. Qed.
Print Assumptions incon_transfer_source_unchanged.

(** ** t2data.transfer_generators_from onto an identical geometry *)
(** with the mappings of the geometry onto itself, every generator that sits where the transfer puts
    generators of its kind ([gen_home]) is reproduced (same name, block, type, table length, opaque
    attributes; rates equal as rationals), in the same order, and the total generation is the same;
    for rename x preserve_totals in all four combinations *)
Theorem generator_transfer_identity : forall nearest g m cm tops bots incols vols rename preserve gens,
  nearest_spec nearest -> wf g -> NoDup (map ccentre (gcols g)) -> NoDup (map lcentre (tl (glayers g))) ->
  block_mapping nearest g g = Ok (m, cm) ->
  map fst vols = block_name_list g ->
  (forall c, In c (gcols g) -> In (cname c) incols) ->
  Forall (gen_home g tops bots vols rename) gens ->
  exists gens', transfer_generators g g tops bots incols vols vols m cm rename preserve gens = Ok gens' /\
                Forall2 gen_eq gens' gens /\ (total_gx gens' == total_gx gens)%Q.
Proof. exact generator_transfer_identity_bm. Qed.
Print Assumptions generator_transfer_identity.
Theorem generator_transfer_hypotheses_satisfiable :
  Forall (gen_home (src_of Atm0) [s2l "tp"] [s2l "bt"] vols1 false) gens1 /\
  map fst vols1 = block_name_list (src_of Atm0).
Proof. exact gen_hyps_sat. Qed.
Print Assumptions generator_transfer_hypotheses_satisfiable.
