(** C19 -- transferring generators onto an identical geometry keeps every generator and the totals. *)
From Coq Require Import Ascii String List Bool Arith ZArith QArith Lia Setoid.
From PTBase Require Import Exn PyStr Wire.
From P Require Import Lib Transfer Generators Wf MapProofs.
Import ListNotations.
Close Scope Q_scope.

Lemma filterM_pure {A} (p : A -> res bool) (q : A -> bool) l :
  (forall x, In x l -> p x = Ok (q x)) -> filterM p l = Ok (filter q l).
Proof.
  induction l as [|a l IH]; intro H; [reflexivity|]. cbn [filterM filter].
  rewrite (H a (or_introl eq_refl)). cbn [bind]. rewrite IH by (intros x I; apply H; right; exact I).
  cbn [bind]. destruct (q a); reflexivity.
Qed.

Lemma filter_unique {A} (key : A -> str) l x0 :
  NoDup (map key l) -> In x0 l -> filter (fun x => str_eqb (key x) (key x0)) l = [x0].
Proof.
  induction l as [|a l IH]; intros ND I; [destruct I|]. cbn [map] in ND. inversion ND as [|? ? NI ND']; subst.
  cbn [filter]. destruct I as [E|I].
  - subst a. rewrite str_eqb_refl. f_equal.
    assert (F : forall l', ~ In (key x0) (map key l') -> filter (fun x => str_eqb (key x) (key x0)) l' = []).
    { induction l' as [|b l' IH']; intro N; [reflexivity|]. cbn [filter].
      destruct (str_eqb_spec (key b) (key x0)) as [E|_]; [exfalso; apply N; left; exact E|].
      apply IH'. intro J; apply N; right; exact J. }
    apply F. exact NI.
  - destruct (str_eqb_spec (key a) (key x0)) as [E|_].
    + exfalso. apply NI. rewrite E. apply in_map. exact I.
    + apply IH; assumption.
Qed.

(** ** rational bookkeeping *)
Lemma qadd_correct a b : (qadd a b == a + b)%Q.
Proof. unfold qadd. apply Qred_correct. Qed.
Lemma qsum_acc_compat a b : Forall2 Qeq a b -> forall x y, (x == y)%Q -> (fold_left qadd a x == fold_left qadd b y)%Q.
Proof.
  induction 1 as [|p q a b Hpq H IH]; intros x y E; cbn [fold_left]; [exact E|]. apply IH.
  rewrite !qadd_correct, E, Hpq. reflexivity.
Qed.
Lemma qsum_compat a b : Forall2 Qeq a b -> (qsum a == qsum b)%Q.
Proof. intro H. unfold qsum. apply qsum_acc_compat; [exact H|reflexivity]. Qed.
Lemma qsum_one v : (qsum [v] == v)%Q.
Proof. unfold qsum. cbn [fold_left]. rewrite qadd_correct. ring. Qed.

Lemma Forall2_Qeq_map_one r l : (r == 1)%Q -> Forall2 Qeq (map (fun x => (x * r)%Q) l) l.
Proof.
  intro E. induction l as [|a l IH]; cbn [map]; [constructor|]. constructor; [|exact IH].
  cbn beta. setoid_rewrite E. ring.
Qed.
Lemma Forall2_Qeq_refl l : Forall2 Qeq l l.
Proof. induction l; constructor; [reflexivity|assumption]. Qed.

(** scaling by a ratio equal to one changes no generator (up to the value of the rationals) *)
Lemma scale_gen_one r gn : (r == 1)%Q ->
  gtype (scale_gen r gn) = gtype gn /\ gltab (scale_gen r gn) = gltab gn /\ gtag (scale_gen r gn) = gtag gn /\
  optq_eq (ggx (scale_gen r gn)) (ggx gn) /\ Forall2 Qeq (grate (scale_gen r gn)) (grate gn).
Proof.
  intro E. unfold scale_gen. destruct (memb (gtype gn) tablegens).
  - cbn [gtype gltab gtag ggx grate]. do 3 (split; [reflexivity|]). split.
    + destruct (ggx gn) as [x|]; [|exact I]. destruct (qzero x); cbn [optq_eq]; [reflexivity|rewrite E; ring].
    + destruct (1 <? Z.abs (gltab gn))%Z; [apply Forall2_Qeq_map_one; exact E|apply Forall2_Qeq_refl].
  - do 3 (split; [reflexivity|]). split; [destruct (ggx gn); cbn [optq_eq]; [reflexivity|exact I]|apply Forall2_Qeq_refl].
Qed.

Lemma ratio_one v a : ~ (v == 0)%Q -> (a == v)%Q -> (v / a == 1)%Q.
Proof. intros N E. rewrite E. field. exact N. Qed.

Section Identity.
Variables (g : geom) (tops bots incols : list str) (vols : list (str * Q)) (mapping colmapping : dict)
          (rename preserve : bool).
Hypothesis W : wf g.
Hypothesis Hvols : NoDup (map fst vols).
Hypothesis Hmap : forall bv, In bv vols -> dget (fst bv) mapping = Ok (fst bv).
Hypothesis Hcmap : forall c, In c (gcols g) -> dget (cname c) colmapping = Ok (cname c).
Hypothesis Hincols : forall c, In c (gcols g) -> In (cname c) incols.

(** a generator that sits where the transfer would put it: a top/bottom generator in the surface/last
    layer of an existing column and named after it; any other generator in an existing block (and,
    when generators are renamed, named after its block's column) *)
Definition gen_home (gn : gen) : Prop :=
  let cat := layer_name g (gname gn) in
  if memb cat (col_generator tops bots) then
    exists col lay, In col (gcols g) /\ cname col = column_name g (gblock gn) /\ ~ (carea col == 0)%Q /\
      block_name_r (gconv g) cat (cname col) = Ok (gname gn) /\
      (if memb cat tops then column_surface_layer g col else
         match rev (glayers g) with l :: _ => Ok l | [] => Raise IndexError end) = Ok lay /\
      block_name_r (gconv g) (lname lay) (cname col) = Ok (gblock gn)
  else
    exists v, In (gblock gn, v) vols /\ ~ (v == 0)%Q /\
      (rename = true -> block_name_r (gconv g) cat (column_name g (gblock gn)) = Ok (gname gn)).

Lemma transfer_gen_home gn : gen_home gn ->
  exists gn', transfer_gen g g tops bots incols vols vols mapping colmapping rename preserve gn = Ok [gn'] /\ gen_eq gn' gn.
Proof.
  unfold gen_home, transfer_gen. destruct (memb (layer_name g (gname gn)) (col_generator tops bots)).
  - intros [col [lay [Ic [Ecn [NZ [Hname [Hlay Hblock]]]]]]].
    unfold transfer_col_gen.
    rewrite (filterM_pure _ (fun c => str_eqb (cname c) (cname col))).
    2:{ intros c I. rewrite (proj2 (memb_In _ _) (Hincols c I)), (Hcmap c I). cbn [bind]. rewrite Ecn. reflexivity. }
    rewrite (filter_unique cname _ col (cnames_nodup g W) Ic). cbn [bind].
    assert (A : exists area, (if preserve then Ok (qsum (map carea [col]))
                              else do c <- col_lookup (gcols g) (column_name g (gblock gn)); Ok (carea c)) = Ok area /\
                             (area == carea col)%Q).
    { destruct preserve.
      - eexists. split; [reflexivity|]. cbn [map]. apply qsum_one.
      - rewrite <- Ecn, (col_lookup_in _ _ (cnames_nodup g W) Ic). cbn [bind]. eexists. split; reflexivity. }
    destruct A as [area [Ea Eq]]. rewrite Ea. cbn [bind mapM].
    rewrite Nat.eqb_refl. cbn [bind]. rewrite Hname. cbn [bind].
    assert (L : (if memb (layer_name g (gname gn)) tops then do l <- column_surface_layer g col; Ok (lname l)
                 else last_layer_name g) = Ok (lname lay)).
    { destruct (memb (layer_name g (gname gn)) tops).
      - rewrite Hlay. reflexivity.
      - unfold last_layer_name. destruct (rev (glayers g)); [discriminate|]. inversion Hlay; reflexivity. }
    rewrite L. cbn [bind]. rewrite Hblock. cbn [bind]. eexists. split; [reflexivity|].
    destruct (scale_gen_one (carea col / area) gn (ratio_one _ _ NZ Eq)) as [T [Lt [Tg [Gx R]]]].
    unfold gen_eq. cbn [gname gblock gtype ggx gltab grate gtag]. do 2 (split; [reflexivity|]). repeat (split; [assumption|]). assumption.
  - intros [v [Iv [NZ Hren]]]. unfold transfer_blk_gen.
    rewrite (dget_nodup_in _ _ _ Hvols Iv). cbn [bind].
    rewrite (filterM_pure _ (fun bv => str_eqb (fst bv) (fst (gblock gn, v)))).
    2:{ intros bv I. rewrite (Hmap bv I). reflexivity. }
    rewrite (filter_unique fst _ (gblock gn, v) Hvols Iv). cbn [bind mapM fst snd].
    assert (Nm : (if rename then
                    do category <- (if Nat.eqb (gconv g) (gconv g) then Ok (layer_name g (gname gn))
                                    else match nth_error [s2l " 0"; layer_name g (gname gn); layer_name g (gname gn)] (gconv g) with
                                         | Some c => Ok c | None => Raise IndexError end);
                    block_name_r (gconv g) category (column_name g (gblock gn))
                  else Ok (gname (scale_gen (v / (if preserve then qsum (map snd [(gblock gn, v)]) else v)) gn))) = Ok (gname gn)).
    { destruct rename.
      - rewrite Nat.eqb_refl. cbn [bind]. apply Hren. reflexivity.
      - f_equal. unfold scale_gen. destruct (memb (gtype gn) tablegens); reflexivity. }
    rewrite Nm. cbn [bind]. eexists. split; [reflexivity|].
    assert (Eq : ((if preserve then qsum (map snd [(gblock gn, v)]) else v) == v)%Q).
    { destruct preserve; [cbn [map snd]; apply qsum_one|reflexivity]. }
    destruct (scale_gen_one _ gn (ratio_one _ _ NZ Eq)) as [T [Lt [Tg [Gx R]]]].
    unfold gen_eq. cbn [gname gblock gtype ggx gltab grate gtag]. do 2 (split; [reflexivity|]). repeat (split; [assumption|]). assumption.
Qed.

Lemma gx_val_compat a b : gen_eq a b -> (gx_val a == gx_val b)%Q.
Proof.
  intros [_ [_ [_ [G _]]]]. unfold gx_val. destruct (ggx a), (ggx b); cbn [optq_eq] in G; try contradiction; [exact G|reflexivity].
Qed.

Lemma generator_transfer_identity_l gens : Forall gen_home gens ->
  exists gens', transfer_generators g g tops bots incols vols vols mapping colmapping rename preserve gens = Ok gens' /\
                Forall2 gen_eq gens' gens /\ (total_gx gens' == total_gx gens)%Q.
Proof.
  intro H. unfold transfer_generators.
  assert (A : exists gens', mapM (transfer_gen g g tops bots incols vols vols mapping colmapping rename preserve) gens =
                            Ok (map (fun x => [x]) gens') /\ Forall2 gen_eq gens' gens).
  { induction H as [|gn gens Hg H IH]; [exists []; split; [reflexivity|constructor]|].
    destruct (transfer_gen_home gn Hg) as [gn' [E Q]]. destruct IH as [gens' [E' Q']].
    exists (gn' :: gens'). cbn [mapM map]. rewrite E. cbn [bind]. rewrite E'. cbn [bind].
    split; [reflexivity|constructor; assumption]. }
  destruct A as [gens' [E Q]]. rewrite E. cbn [bind]. exists gens'.
  assert (C : concat (map (fun x : gen => [x]) gens') = gens') by (clear; induction gens' as [|a l IH]; [reflexivity|cbn [map concat app]; rewrite IH; reflexivity]).
  rewrite C. split; [reflexivity|]. split; [exact Q|].
  unfold total_gx. apply qsum_compat. clear -Q. induction Q; cbn [map]; constructor; [apply gx_val_compat; assumption|assumption].
Qed.

End Identity.
