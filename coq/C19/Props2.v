(** C19 -- property theorems, second group: t2data.transfer_from as a whole (rock types, print block,
    generators onto arbitrary geometries with the exact conservation law, in-file initial conditions,
    the initial-conditions file), the convention-3 IndexError, and what [nearest_spec] leaves open (ties).
    Same conventions as Props.v: [exact] of a lemma proved elsewhere + Print Assumptions.

    Models: DataTransfer.v (t2data.transfer_from, transfer_rocktypes_from), Generators.v
    (transfer_generators_from).  [mapping] / [colmapping] are ARBITRARY dictionaries in the generator
    and rock type theorems (no assumption that they come from block_mapping). *)
From Coq Require Import Ascii String List Bool Arith ZArith QArith.
From PTBase Require Import Exn PyStr.
From P Require Import Lib Transfer Generators Wf MapProofs MapThms InconProofs GenProofs GenSpec DataTransfer DataProofs TieThms Witness Witness2.
Import ListNotations.
Close Scope Q_scope.

(** ** generators onto arbitrary geometries *)
(** a top/bottom generator gets one copy per target column that lies in the source geometry and is
    column-mapped to the generator's column, in column order; the copy sits in that column's surface
    layer block (top) / last layer block (bottom) and is named after the column; its rates are the source
    rates times (column area / reference area), reference = total receiving area with preserve_totals,
    else the source column's area *)
Theorem generator_follows_columns : forall sourcegeo geo tops bots incols colmapping preserve g cat scn outs,
  transfer_col_gen sourcegeo geo tops bots incols colmapping preserve g cat scn = Ok outs ->
  let mapped := filter (col_follows incols colmapping scn) (gcols geo) in
  exists area,
    (if preserve then area = qsum (map carea mapped)
     else exists c, col_lookup (gcols sourcegeo) scn = Ok c /\ area = carea c) /\
    Forall2 (copy_of carea area g) mapped outs /\
    Forall2 (fun col o => exists lay category,
               (if memb cat tops then column_surface_layer geo col else last_layer geo) = Ok lay /\
               block_name_r (gconv geo) (lname lay) (cname col) = Ok (gblock o) /\
               block_name_r (gconv geo) category (cname col) = Ok (gname o) /\
               (gconv geo = gconv sourcegeo -> category = cat)) mapped outs.
Proof. exact transfer_col_gen_spec. Qed.
Print Assumptions generator_follows_columns.

(** every other generator gets one copy per block of the target grid that is block-mapped to the
    generator's block, in grid order, placed in that block, scaled by (block volume / reference volume) *)
Theorem generator_follows_blocks : forall sourcegeo geo svols dvols mapping rename preserve g cat outs,
  transfer_blk_gen sourcegeo geo svols dvols mapping rename preserve g cat = Ok outs ->
  let mapped := filter (blk_follows mapping (gblock g)) dvols in
  exists svol vol, dget (gblock g) svols = Ok svol /\
    vol = (if preserve then qsum (map snd mapped) else svol) /\
    Forall2 (copy_of snd vol g) mapped outs /\
    Forall2 (fun bv o => gblock o = fst bv /\ (rename = false -> gname o = gname g)) mapped outs.
Proof. exact transfer_blk_gen_spec. Qed.
Print Assumptions generator_follows_blocks.

(** the exact conservation law (generator types with rates: AIR COM1-5 HEAT MASS NACL TRAC VOL):
    with preserve_totals the copies' rates (and every table entry) add up to the source's; without,
    to the source's times (receiving area or volume / source column area or block volume) *)
Theorem generator_total_conserved_columns : forall sourcegeo geo tops bots incols colmapping preserve g cat scn outs,
  transfer_col_gen sourcegeo geo tops bots incols colmapping preserve g cat scn = Ok outs ->
  memb (gtype g) tablegens = true ->
  let mapped := filter (col_follows incols colmapping scn) (gcols geo) in
  (preserve = true -> ~ (qsum (map carea mapped) == 0)%Q ->
     (total_gx outs == gx_val g)%Q /\
     ((1 < Z.abs (gltab g))%Z -> forall k, (qsum (map (fun o => nth k (grate o) 0%Q) outs) == nth k (grate g) 0%Q)%Q)) /\
  (preserve = false -> exists c, col_lookup (gcols sourcegeo) scn = Ok c /\
     (total_gx outs == gx_val g * (qsum (map carea mapped) / carea c))%Q).
Proof. exact col_gen_conservation. Qed.
Print Assumptions generator_total_conserved_columns.
Theorem generator_total_conserved_blocks : forall sourcegeo geo svols dvols mapping rename preserve g cat outs,
  transfer_blk_gen sourcegeo geo svols dvols mapping rename preserve g cat = Ok outs ->
  memb (gtype g) tablegens = true ->
  let mapped := filter (blk_follows mapping (gblock g)) dvols in
  (preserve = true -> ~ (qsum (map snd mapped) == 0)%Q ->
     (total_gx outs == gx_val g)%Q /\
     ((1 < Z.abs (gltab g))%Z -> forall k, (qsum (map (fun o => nth k (grate o) 0%Q) outs) == nth k (grate g) 0%Q)%Q)) /\
  (preserve = false -> exists svol, dget (gblock g) svols = Ok svol /\
     (total_gx outs == gx_val g * (qsum (map snd mapped) / svol))%Q).
Proof. exact blk_gen_conservation. Qed.
Print Assumptions generator_total_conserved_blocks.
Theorem generator_conservation_hypotheses_satisfiable :
  exists outs, transfer_col_gen (src_of Atm0) (fine 0) [nm "tp"] [nm "bt"] [nm "  d"; nm "  e"; nm "  f"]
                 [(nm "  f", nm "  b"); (nm "  e", nm "  a"); (nm "  d", nm "  a")] true
                 (mkGen (nm "  atp") (nm "  a 1") (nm "MASS") (Some (6 # 1)%Q) 0 [] 1) (nm "tp") (nm "  a") = Ok outs /\
    length outs = 2 /\ memb (nm "MASS") tablegens = true /\
    ~ (qsum (map carea (filter (col_follows [nm "  d"; nm "  e"; nm "  f"]
                                            [(nm "  f", nm "  b"); (nm "  e", nm "  a"); (nm "  d", nm "  a")] (nm "  a"))
                               (gcols (fine 0)))) == 0)%Q.
Proof. exact conservation_hyps_sat. Qed.
Print Assumptions generator_conservation_hypotheses_satisfiable.

(** generators of the other types (DELV, ...) are copied with their rates unchanged *)
Theorem generator_copies_unscaled : forall (A : Type) (w : A -> Q) W g items outs,
  Forall2 (copy_of w W g) items outs -> memb (gtype g) tablegens = false ->
  Forall (fun o => ggx o = ggx g /\ grate o = grate g) outs.
Proof. exact @copies_unscaled. Qed.
Print Assumptions generator_copies_unscaled.

(** a generator that no target column / block follows disappears; the result is the concatenation, in
    source order, of the generators' copies *)
Theorem generator_dropped_when_unmapped : forall sourcegeo geo tops bots incols svols dvols mapping colmapping rename preserve g outs,
  transfer_gen sourcegeo geo tops bots incols svols dvols mapping colmapping rename preserve g = Ok outs ->
  (if memb (layer_name sourcegeo (gname g)) (col_generator tops bots)
   then filter (col_follows incols colmapping (column_name sourcegeo (gblock g))) (gcols geo)  = []
   else filter (blk_follows mapping (gblock g)) dvols = []) -> outs = [].
Proof. exact transfer_gen_dropped. Qed.
Print Assumptions generator_dropped_when_unmapped.
Theorem generators_transfer_concat : forall sourcegeo geo tops bots incols svols dvols mapping colmapping rename preserve gens outs,
  transfer_generators sourcegeo geo tops bots incols svols dvols mapping colmapping rename preserve gens = Ok outs ->
  exists per, Forall2 (fun g os => transfer_gen sourcegeo geo tops bots incols svols dvols mapping colmapping rename preserve g = Ok os) gens per /\
              outs = concat per.
Proof. exact transfer_generators_concat. Qed.
Print Assumptions generators_transfer_concat.

(** the list indexed by the target's naming convention has three entries: a top/bottom generator
    transferred onto a convention-3 target from a source of another convention raises IndexError
    (outside the property statement, whose generator clause is about identical geometries) *)
Theorem generator_convention3_indexerror : forall sourcegeo geo tops bots incols colmapping preserve g cat scn,
  gconv geo = 3 -> gconv sourcegeo <> 3 -> In cat (col_generator tops bots) ->
  (forall col, In col (gcols geo) -> exists mc, dget (cname col) colmapping = Ok mc) ->
  filter (col_follows incols colmapping scn) (gcols geo) <> [] ->
  (preserve = false -> exists c, col_lookup (gcols sourcegeo) scn = Ok c) ->
  transfer_col_gen sourcegeo geo tops bots incols colmapping preserve g cat scn = Raise IndexError.
Proof. exact transfer_col_gen_convention3. Qed.
Print Assumptions generator_convention3_indexerror.
Theorem generator_convention3_example :
  data_transfer nearest_exec srcdat (src_of Atm0) (fine 3) finegrid [nm "  d"; nm "  e"; nm "  f"] [nm "tp"] [nm "bt"]
                false true None = Raise IndexError.
Proof. exact convention3_example. Qed.
Print Assumptions generator_convention3_example.

(** ** rock types, print block, in-file initial conditions (arbitrary mapping) *)
(** every block of the target grid gets the rock type of its mapped source block, which is registered *)
Theorem rocktypes_transfer_spec : forall src dgrid mapping rb, NoDup (map fst dgrid) ->
  transfer_rocktypes src dgrid mapping = Ok rb ->
  forall b v, In (b, v) dgrid -> exists sb rk sv, dget b mapping = Ok sb /\ dget sb (dblocks src) = Ok (rk, sv) /\
                                                 In rk (drocks src) /\ dget b rb = Ok (rk, v).
Proof. exact transfer_rocktypes_blocks. Qed.
Print Assumptions rocktypes_transfer_spec.
Theorem rocktypes_transfer_total : forall src dgrid mapping, maps_into_rocks src mapping dgrid ->
  exists rb, transfer_rocktypes src dgrid mapping = Ok rb.
Proof. exact transfer_rocktypes_total. Qed.
Print Assumptions rocktypes_transfer_total.
Theorem print_block_transfer_spec : forall src dgrid mapping pb, transfer_print src dgrid mapping = Ok pb ->
  pb = match dprint src with
       | None => None
       | Some p => match filter (blk_follows mapping p) dgrid with bv :: _ => Some (fst bv) | [] => None end
       end.
Proof. exact transfer_print_spec. Qed.
Print Assumptions print_block_transfer_spec.
(** a target block has an in-file initial condition exactly when its mapped source block has one, and then the same *)
Theorem incon_dict_transfer_spec : forall src dgrid mapping ic,
  NoDup (map fst (dincon src)) -> NoDup (map fst dgrid) ->
  transfer_incon_dict src dgrid mapping = Ok ic ->
  forall bv sb, In bv dgrid -> dget (fst bv) mapping = Ok sb -> dget (fst bv) ic = dget sb (dincon src).
Proof. exact transfer_incon_dict_spec. Qed.
Print Assumptions incon_dict_transfer_spec.
Theorem incon_dict_transfer_total : forall src dgrid mapping, maps_all mapping dgrid ->
  exists ic, transfer_incon_dict src dgrid mapping = Ok ic.
Proof. exact transfer_incon_dict_total. Qed.
Print Assumptions incon_dict_transfer_total.

(** ** t2data.transfer_from *)
(** what a successful call returns: the parts above computed with the mappings of block_mapping; the rock
    type list and all verbatim attributes are the source's; the optional initial-conditions file is
    t2incon.transfer_from with these mappings (incon_transfer_spec applies to it) *)
Theorem data_transfer_spec : forall nearest src sourcegeo geo dgrid incols tops bots rename preserve sincfile d f,
  data_transfer nearest src sourcegeo geo dgrid incols tops bots rename preserve sincfile = Ok (d, f) ->
  exists m cm, block_mapping nearest sourcegeo geo = Ok (m, cm) /\
    transfer_print src dgrid m = Ok (dprint d) /\
    transfer_rocktypes src dgrid m = Ok (dblocks d) /\
    drocks d = drocks src /\ dtag d = dtag src /\
    transfer_generators sourcegeo geo tops bots incols (svols_of src) dgrid m cm rename preserve (dgens src) = Ok (dgens d) /\
    transfer_incon_dict src dgrid m = Ok (dincon d) /\
    match sincfile with
    | None => f = None
    | Some si => exists i, incon_transfer nearest (Some (m, cm)) si sourcegeo geo = Ok i /\ f = Some i
    end.
Proof. exact data_transfer_inv. Qed.
Print Assumptions data_transfer_spec.
Theorem data_transfer_rock_types : forall nearest src sourcegeo geo dgrid incols tops bots rename preserve sincfile d f,
  NoDup (map fst dgrid) ->
  data_transfer nearest src sourcegeo geo dgrid incols tops bots rename preserve sincfile = Ok (d, f) ->
  exists m cm, block_mapping nearest sourcegeo geo = Ok (m, cm) /\ drocks d = drocks src /\
    map fst (dblocks d) = map fst dgrid /\
    forall b v, In (b, v) dgrid -> exists sb rk sv, dget b m = Ok sb /\ dget sb (dblocks src) = Ok (rk, sv) /\
                                                    In rk (drocks d) /\ dget b (dblocks d) = Ok (rk, v).
Proof. exact data_transfer_rocktypes. Qed.
Print Assumptions data_transfer_rock_types.
(** every block of the target is mapped to a block of the source grid, unless the target has
    atmosphere blocks and the source none (then transfer_rocktypes_from raises KeyError) *)
Theorem block_mapping_into_source_grid : forall nearest, nearest_spec nearest -> forall sourcegeo geo m cm,
  wf sourcegeo -> wf geo -> (gatm sourcegeo <> Atm2 \/ gatm geo = Atm2) ->
  block_mapping nearest sourcegeo geo = Ok (m, cm) ->
  forall b, In b (block_name_list geo) -> exists sb, dget b m = Ok sb /\ In sb (block_name_list sourcegeo).
Proof. exact block_mapping_into_source. Qed.
Print Assumptions block_mapping_into_source_grid.
(** totality of the whole call, PARTIAL: the generator step is assumed to succeed (its name formation
    can raise IndexError: short names, generator_convention3_indexerror) *)
Theorem data_transfer_total_partial : forall nearest, nearest_spec nearest ->
  forall src sourcegeo geo dgrid incols tops bots rename preserve,
  wf sourcegeo -> wf geo -> (gatm sourcegeo <> Atm2 \/ gatm geo = Atm2) ->
  map fst dgrid = block_name_list geo ->
  (forall sb, In sb (block_name_list sourcegeo) -> exists sblk, dget sb (dblocks src) = Ok sblk /\ In (fst sblk) (drocks src)) ->
  (forall m cm, block_mapping nearest sourcegeo geo = Ok (m, cm) ->
     exists gs, transfer_generators sourcegeo geo tops bots incols (svols_of src) dgrid m cm rename preserve (dgens src) = Ok gs) ->
  exists d, data_transfer nearest src sourcegeo geo dgrid incols tops bots rename preserve None = Ok (d, None).
Proof. exact data_transfer_total_l. Qed.
Print Assumptions data_transfer_total_partial.
Theorem data_transfer_example :
  exists d, transferred = Ok (d, None) /\
    rock_of d "  d 1"%string = Ok (nm "rockA") /\ rock_of d "  e 2"%string = Ok (nm "rockA") /\ rock_of d "  f 1"%string = Ok (nm "rockB") /\
    rock_of d "  f 2"%string = Ok (nm "rockC") /\ rock_of d "ATM 0"%string = Ok (nm "atmos") /\ drocks d = drocks srcdat /\
    dprint d = Some (nm "  d 2") /\
    map gblock (dgens d) = map nm ["  d 1"; "  e 1"; "  d 2"; "  e 2"; "  f 2"]%string /\
    map gname (dgens d) = map nm ["  dtp"; "  etp"; "wel 1"; "wel 1"; "wel 2"]%string /\
    Qeq_bool (total_gx (dgens d)) (total_gx (dgens srcdat)) = true /\
    dincon d = [(nm "  d 2", 7); (nm "  e 2", 7); (nm "  f 1", 9)] /\ dtag d = 42.
Proof. exact Witness2.data_transfer_example. Qed.
Print Assumptions data_transfer_example.

(** ** ties: what [nearest_spec] leaves open *)
(** two valid searches choose columns at exactly the same distance *)
Theorem tie_choices_equidistant : forall n1 n2 self col, nearest_spec n1 -> nearest_spec n2 -> gcols self <> [] ->
  cdist col (near_col n1 self col) = cdist col (near_col n2 self col).
Proof. exact choices_equidistant. Qed.
Print Assumptions tie_choices_equidistant.
(** a unique nearest centre is returned by every valid search ... *)
Theorem unique_nearest_found_by_every_search : forall n self col sc, nearest_spec n -> unique_argmin self col sc ->
  near_col n self col = sc.
Proof. exact unique_argmin_found. Qed.
Print Assumptions unique_nearest_found_by_every_search.
(** ... so without exact ties the block mapping (blocks and columns) does not depend on the search *)
Theorem block_mapping_search_independent : forall n1 n2 self geo, nearest_spec n1 -> nearest_spec n2 -> wf self -> wf geo ->
  (forall col, In col (gcols geo) -> exists sc, unique_argmin self col sc) ->
  block_mapping n1 self geo = block_mapping n2 self geo.
Proof. exact block_mapping_search_independent_l. Qed.
Print Assumptions block_mapping_search_independent.
(** every way of resolving exact ties is a search meeting nearest_spec: all theorems above hold for it *)
Theorem any_tie_resolution_is_valid : forall self geo (pick : column -> column),
  NoDup (map ccentre (gcols geo)) ->
  (forall col, In col (gcols geo) -> is_argmin self col (pick col)) ->
  exists n, nearest_spec n /\ forall col, In col (gcols geo) -> near_col n self col = pick col.
Proof. exact any_tie_resolution_is_valid_l. Qed.
Print Assumptions any_tie_resolution_is_valid.
Theorem tie_example_two_valid_choices :
  is_argmin (src_of Atm2) Cm Ca /\ is_argmin (src_of Atm2) Cm Cb /\ Ca <> Cb /\
  ~ (exists sc, unique_argmin (src_of Atm2) Cm sc).
Proof. exact tie_example. Qed.
Print Assumptions tie_example_two_valid_choices.
(** the layer search (first arg-min) has no such freedom *)
Theorem layer_first_argmin_unique : forall (d : nat -> Z) i j,
  (forall k, (d i <= d k)%Z) -> (forall k, k < i -> (d i < d k)%Z) ->
  (forall k, (d j <= d k)%Z) -> (forall k, k < j -> (d j < d k)%Z) -> i = j.
Proof. exact first_argmin_unique. Qed.
Print Assumptions layer_first_argmin_unique.
