(** C19 -- proofs about column_mapping / layer_mapping / block_mapping. *)
From Coq Require Import Ascii String List Bool Arith ZArith QArith Lia.
From PTBase Require Import Exn PyStr.
From P Require Import Lib Transfer Wf.
Import ListNotations.
Close Scope Q_scope.

Definition unres {A} (d : A) (r : res A) : A := match r with Ok a => a | Raise _ => d end.
Definition dcol : column := mkC [] (0, 0)%Z 0 0 (0 # 1)%Q.
Definition dlay : layer := mkL [] 0 0.

Lemma mapM_total_fn {A B} (f : A -> res B) (d : B) l :
  (forall x, In x l -> exists y, f x = Ok y) -> mapM f l = Ok (map (fun x => unres d (f x)) l).
Proof.
  intro H. apply mapM_ok_map. intros x Ix. destruct (H x Ix) as [y E]. rewrite E. reflexivity.
Qed.

Lemma Forall2_in_l {A B} (R : A -> B -> Prop) l ys x : Forall2 R l ys -> In x l -> exists y, In y ys /\ R x y.
Proof.
  induction 1 as [|a b l ys Hab H IH]; intro I; [destruct I|].
  destruct I as [E|I]; [subst; exists b; split; [left; reflexivity|exact Hab]|].
  destruct (IH I) as [y [Iy Ry]]. exists y. split; [right; exact Iy|exact Ry].
Qed.
Lemma Forall2_map_fst {A B} (f : A -> res (A * B)) l ys :
  Forall2 (fun x y => f x = Ok y) l ys -> (forall x y, f x = Ok y -> fst y = x) -> map fst ys = l.
Proof.
  intros H F. induction H as [|a b l ys Hab H IH]; [reflexivity|]. cbn [map]. rewrite (F a b Hab), IH. reflexivity.
Qed.

Lemma dget_keyed {A} (key val : A -> str) l x rest :
  NoDup (map key l) -> In x l -> dget (key x) (rev (map (fun a => (key a, val a)) l) ++ rest) = Ok (val x).
Proof.
  intros ND I. apply dget_in_nodup.
  - rewrite map_rev, map_map. cbn [fst]. apply NoDup_rev. exact ND.
  - apply -> in_rev. apply in_map_iff. exists x. split; [reflexivity|exact I].
Qed.
Lemma dget_keyed_notin {A} (key val : A -> str) l k rest :
  ~ In k (map key l) -> dget k (rev (map (fun a => (key a, val a)) l) ++ rest) = dget k rest.
Proof.
  intro N. apply dget_app_notin. rewrite map_rev, map_map. cbn [fst]. intro I. apply in_rev in I. exact (N I).
Qed.

Lemma dget_nodup_in {V} k (v : V) (a : list (str * V)) : NoDup (map fst a) -> In (k, v) a -> dget k a = Ok v.
Proof. intros ND I. rewrite <- (app_nil_r a). apply dget_in_nodup; assumption. Qed.

Lemma nth_map_d {A B} (f : A -> B) l j d d' : j < length l -> nth j (map f l) d' = f (nth j l d).
Proof. intro H. rewrite (nth_indep _ d' (f d)) by (rewrite map_length; exact H). apply map_nth. Qed.

Section Proofs.
Variable nearest : pt -> list pt -> nat.
Hypothesis Hn : nearest_spec nearest.

Definition near_col (self : geom) (col : column) : column :=
  nth (nearest (ccentre col) (map ccentre (gcols self))) (gcols self) dcol.

(** the column chosen is a source column at minimal (squared) distance of the centres *)
Lemma closest_col_ok self col : gcols self <> [] ->
  closest_col nearest self col = Ok (near_col self col) /\ In (near_col self col) (gcols self) /\
  forall c', In c' (gcols self) -> (dist2 (ccentre col) (ccentre (near_col self col)) <= dist2 (ccentre col) (ccentre c'))%Z.
Proof.
  intro NE. unfold closest_col, near_col.
  assert (NE' : map ccentre (gcols self) <> []) by (destruct (gcols self); [congruence|discriminate]).
  destruct (Hn (ccentre col) _ NE') as [L M]. rewrite map_length in L.
  set (i := nearest (ccentre col) (map ccentre (gcols self))) in *.
  rewrite (nth_error_nth' _ dcol L). split; [reflexivity|]. split; [apply nth_In; exact L|].
  intros c' Ic'. specialize (M (ccentre c') (in_map ccentre _ _ Ic')).
  rewrite (nth_map_d _ _ _ dcol) in M by exact L. exact M.
Qed.

Definition ldist (lay s : layer) : Z := Z.abs (lcentre s - lcentre lay).
Definition near_lay (srest : list layer) (lay : layer) : layer := unres dlay (closest_lay srest lay).

(** the layer chosen is the FIRST source layer (below the atmosphere layer) at minimal distance of centres *)
Lemma closest_lay_ok srest lay : srest <> [] ->
  exists i, closest_lay srest lay = Ok (near_lay srest lay) /\ nth_error srest i = Some (near_lay srest lay) /\
    (forall l, In l srest -> (ldist lay (near_lay srest lay) <= ldist lay l)%Z) /\
    (forall j l, j < i -> nth_error srest j = Some l -> (ldist lay (near_lay srest lay) < ldist lay l)%Z).
Proof.
  intro NE. unfold near_lay, closest_lay.
  assert (NE' : map (fun s => Z.abs (lcentre s - lcentre lay)) srest <> []) by (destruct srest; [congruence|discriminate]).
  destruct (argmin_first_spec _ NE') as [i [E [L [M F]]]]. rewrite map_length in L.
  rewrite E. cbn [bind]. rewrite (nth_error_nth' _ dlay L). cbn [unres]. exists i.
  split; [reflexivity|]. split; [apply nth_error_nth'; exact L|].
  assert (Nth : forall j, j < length srest ->
            nth j (map (fun s => Z.abs (lcentre s - lcentre lay)) srest) 0%Z = ldist lay (nth j srest dlay)).
  { intros j Hj. rewrite (nth_map_d _ _ _ dlay) by exact Hj. reflexivity. }
  split.
  - intros l Il. specialize (M (ldist lay l)). rewrite Nth in M by exact L. apply M.
    apply in_map_iff. exists l. split; [reflexivity|exact Il].
  - intros j l Hj Ej. specialize (F j Hj). rewrite !Nth in F by lia.
    rewrite (nth_error_nth _ _ dlay Ej) in F. exact F.
Qed.

Lemma near_lay_in srest lay : srest <> [] -> In (near_lay srest lay) srest.
Proof. intro NE. destruct (closest_lay_ok srest lay NE) as [i [_ [E _]]]. eapply nth_error_In; exact E. Qed.

(** ** closed forms of the two dictionaries *)
Definition m0 (self geo : geom) : dict :=
  match gatm self, gatm geo with Atm0, Atm0 => [(atmcol geo, atmcol self)] | _, _ => [] end.
Definition CM (self geo : geom) : dict :=
  rev (map (fun col => (cname col, cname (near_col self col))) (gcols geo)) ++ m0 self geo.
Definition LM (self geo : geom) : dict :=
  rev (map (fun lay => (lname lay, lname (near_lay (tl (glayers self)) lay))) (tl (glayers geo))) ++
  [(l0name geo, l0name self)].

Lemma cols_ne g : wf g -> gcols g <> [].
Proof. intros W E. pose proof (wf_ncol g (wf_unfold g W)) as H. rewrite E in H. cbn [length] in H. lia. Qed.
Lemma tl_layers_ne g : wf g -> tl (glayers g) <> [].
Proof. intro W. destruct (wf_layers g W) as [l0 [l1 [r E]]]. rewrite E. discriminate. Qed.

Lemma column_mapping_eq self geo : wf self -> column_mapping nearest self geo = Ok (CM self geo).
Proof.
  intro W. unfold column_mapping, CM.
  rewrite (mapM_ok_map _ (fun col => (cname col, cname (near_col self col)))).
  - cbn [bind]. reflexivity.
  - intros col _. destruct (closest_col_ok self col (cols_ne self W)) as [E _]. rewrite E. reflexivity.
Qed.

Lemma layer_mapping_eq self geo : wf self -> wf geo -> layer_mapping self geo = Ok (LM self geo).
Proof.
  intros W W'. unfold layer_mapping, LM, l0name.
  pose proof (tl_layers_ne self W) as NE.
  destruct (wf_layers geo W') as [g0 [g1 [gr Eg]]]. destruct (wf_layers self W) as [s0 [s1 [sr Es]]].
  rewrite Eg, Es in *. cbn [tl] in *.
  rewrite (mapM_ok_map _ (fun lay => (lname lay, lname (near_lay (s1 :: sr) lay)))).
  - reflexivity.
  - intros lay _. destruct (closest_lay_ok (s1 :: sr) lay NE) as [i [E _]]. rewrite E. reflexivity.
Qed.

(** dictionary lookups *)
Lemma CM_col self geo col : wf geo -> In col (gcols geo) -> dget (cname col) (CM self geo) = Ok (cname (near_col self col)).
Proof. intros W I. unfold CM. apply (dget_keyed cname (fun c => cname (near_col self c))); [apply cnames_nodup; exact W|exact I]. Qed.

Lemma CM_atm self geo : wf geo -> gatm geo = Atm0 ->
  dget (atmcol geo) (CM self geo) = match gatm self with Atm0 => Ok (atmcol self) | _ => Raise KeyError end.
Proof.
  intros W E. unfold CM. rewrite (dget_keyed_notin cname) by (apply atmcol_not_cname; assumption).
  unfold m0. rewrite E. destruct (gatm self); cbn [dget]; try reflexivity. rewrite str_eqb_refl. reflexivity.
Qed.

Lemma LM_lay self geo lay : wf geo -> In lay (tl (glayers geo)) ->
  dget (lname lay) (LM self geo) = Ok (lname (near_lay (tl (glayers self)) lay)).
Proof.
  intros W I. unfold LM. apply (dget_keyed lname (fun l => lname (near_lay (tl (glayers self)) l))); [|exact I].
  apply tl_lnames_nodup; exact W.
Qed.

Lemma LM_l0 self geo : wf geo -> dget (l0name geo) (LM self geo) = Ok (l0name self).
Proof.
  intro W. unfold LM. rewrite (dget_keyed_notin lname) by (apply tl_lnames_nodup; exact W).
  cbn [dget]. rewrite str_eqb_refl. reflexivity.
Qed.

(** ** one iteration of the block loop *)
(** the source layer after the above-surface correction *)
Definition src_layer (self : geom) (sc : column) (sl : layer) : layer :=
  if (csurface sc <=? lbottom sl)%Z then unres dlay (column_surface_layer self sc) else sl.

Lemma map_block_ug self geo lay col : wf self -> wf geo -> In lay (tl (glayers geo)) -> In col (gcols geo) ->
  map_block self geo (CM self geo) (LM self geo) (block_name geo (lname lay) (cname col)) =
  Ok (block_name geo (lname lay) (cname col),
      block_name self (lname (src_layer self (near_col self col) (near_lay (tl (glayers self)) lay)))
                 (cname (near_col self col))).
Proof.
  intros W W' Il Ic. unfold map_block.
  destruct (wf_names geo (wf_unfold geo W') (lname lay) (cname col)) as [Ec El];
    [apply in_map, tl_layers_in; exact Il|apply cname_in_all; exact Ic|].
  rewrite Ec, El.
  destruct (str_eqb_spec (lname lay) (l0name geo)) as [E|_].
  { exfalso. destruct (tl_lnames_nodup geo W') as [_ N]. apply N. rewrite <- E. apply in_map; exact Il. }
  rewrite (CM_col self geo col W' Ic), (LM_lay self geo lay W' Il). cbn [bind].
  destruct (closest_col_ok self col (cols_ne self W)) as [_ [Isc _]].
  pose proof (near_lay_in (tl (glayers self)) lay (tl_layers_ne self W)) as Isl.
  rewrite (col_lookup_in _ _ (cnames_nodup self W) Isc). cbn [bind].
  rewrite (lay_lookup_in _ _ (wf_lnodup self (wf_unfold self W)) (tl_layers_in _ _ Isl)). cbn [bind].
  unfold src_layer. destruct (csurface (near_col self col) <=? lbottom (near_lay (tl (glayers self)) lay))%Z; [|reflexivity].
  destruct (surface_layer_first self _ W Isc) as [sl [E _]]. rewrite E. reflexivity.
Qed.

Lemma map_block_atm1 self geo col : wf self -> wf geo -> In col (gcols geo) -> gatm geo = Atm1 ->
  map_block self geo (CM self geo) (LM self geo) (block_name geo (l0name geo) (cname col)) =
  Ok (block_name geo (l0name geo) (cname col),
      block_name self (l0name self) (match gatm self with Atm0 => atmcol self | _ => cname (near_col self col) end)).
Proof.
  intros W W' Ic Eg. unfold map_block.
  destruct (wf_names geo (wf_unfold geo W') (l0name geo) (cname col)) as [Ec El];
    [apply l0name_in; exact W'|apply cname_in_all; exact Ic|].
  rewrite Ec, El, str_eqb_refl, Eg, (CM_col self geo col W' Ic).
  destruct (gatm self); reflexivity.
Qed.

(** the first source column: the stand-in when the target has one atmosphere block and the source has not *)
Definition first_col (self : geom) : column := hd dcol (gcols self).

Lemma map_block_atm0 self geo : wf self -> wf geo -> gatm geo = Atm0 ->
  map_block self geo (CM self geo) (LM self geo) (block_name geo (l0name geo) (atmcol geo)) =
  Ok (block_name geo (l0name geo) (atmcol geo),
      block_name self (l0name self) (match gatm self with Atm0 => atmcol self | _ => cname (first_col self) end)).
Proof.
  intros W W' Ea. unfold map_block, first_col.
  destruct (wf_names geo (wf_unfold geo W') (l0name geo) (atmcol geo)) as [Ec El];
    [apply l0name_in; exact W'|apply atmcol_in_all; exact Ea|].
  rewrite Ec, El, str_eqb_refl, Ea.
  pose proof (cols_ne self W) as NE. destruct (gcols self) as [|c cs]; [congruence|].
  destruct (gatm self); reflexivity.
Qed.

Lemma first_col_in self : wf self -> In (first_col self) (gcols self).
Proof. intro W. unfold first_col. pose proof (cols_ne self W) as NE. destruct (gcols self); [congruence|left; reflexivity]. Qed.

Lemma map_block_fst self geo cm lm dest y : map_block self geo cm lm dest = Ok y -> fst y = dest.
Proof.
  unfold map_block. intro H.
  destruct (str_eqb (layer_name geo dest) (l0name geo)).
  - match type of H with bind ?r _ = _ => destruct r end; cbn [bind] in H; [|discriminate]. inversion H; reflexivity.
  - destruct (dget (column_name geo dest) cm); cbn [bind] in H; [|discriminate].
    destruct (dget (layer_name geo dest) lm); cbn [bind] in H; [|discriminate].
    destruct (col_lookup (gcols self) a); cbn [bind] in H; [|discriminate].
    destruct (lay_lookup (glayers self) a0); cbn [bind] in H; [|discriminate].
    destruct (csurface a1 <=? lbottom a2)%Z; [|inversion H; reflexivity].
    destruct (column_surface_layer self a1); cbn [bind] in H; [|discriminate]. inversion H; reflexivity.
Qed.

(** ** block_mapping *)
Lemma block_mapping_unfold self geo : wf self -> wf geo ->
  block_mapping nearest self geo =
  (do ps <- mapM (map_block self geo (CM self geo) (LM self geo)) (block_name_list geo); Ok (ps, CM self geo)).
Proof.
  intros W W'. unfold block_mapping. rewrite (column_mapping_eq self geo W), (layer_mapping_eq self geo W W'). reflexivity.
Qed.

(** what a successful call returns *)
Lemma block_mapping_inv self geo m cm : wf self -> wf geo -> block_mapping nearest self geo = Ok (m, cm) ->
  cm = CM self geo /\ map fst m = block_name_list geo /\
  forall dest, In dest (block_name_list geo) ->
    exists v, map_block self geo (CM self geo) (LM self geo) dest = Ok (dest, v) /\ dget dest m = Ok v.
Proof.
  intros W W' H. rewrite (block_mapping_unfold self geo W W') in H.
  destruct (mapM _ (block_name_list geo)) as [ps|e] eqn:E; cbn [bind] in H; [|discriminate].
  inversion H; subst. clear H. apply mapM_Ok_inv in E.
  assert (F : map fst m = block_name_list geo) by (apply (Forall2_map_fst _ _ _ E); intros x y; apply map_block_fst).
  split; [reflexivity|]. split; [exact F|].
  intros dest I. destruct (Forall2_in_l _ _ _ dest E I) as [[d v] [Iy Ey]].
  pose proof (map_block_fst _ _ _ _ _ _ Ey) as Ed. cbn [fst] in Ed. subst d.
  exists v. split; [exact Ey|]. apply dget_nodup_in; [|exact Iy].
  rewrite F. apply block_name_list_nodup. exact W'.
Qed.

(** every block of the target is mapped: the call is total (all nine atmosphere arrangements) *)
Lemma map_block_total self geo : wf self -> wf geo ->
  forall dest, In dest (block_name_list geo) -> exists y, map_block self geo (CM self geo) (LM self geo) dest = Ok y.
Proof.
  intros W W' dest I. rewrite (block_name_list_eq geo W') in I. apply in_app_or in I as [I|I].
  - unfold atm_blocks in I. destruct (gatm geo) eqn:Ea.
    + destruct I as [E|[]]. subst dest. rewrite (map_block_atm0 self geo W W' Ea). eauto.
    + apply in_map_iff in I as [c [E Ic]]. subst dest. rewrite (map_block_atm1 self geo c W W' Ic Ea). eauto.
    + destruct I.
  - apply ug_blocks_in in I as [lay [c [Il [Ic [_ E]]]]]. subst dest. rewrite (map_block_ug self geo lay c W W' Il Ic). eauto.
Qed.

Lemma block_mapping_ok self geo : wf self -> wf geo ->
  exists m, block_mapping nearest self geo = Ok (m, CM self geo).
Proof.
  intros W W'. rewrite (block_mapping_unfold self geo W W').
  rewrite (mapM_total_fn _ (([], []) : str * str) _ (map_block_total self geo W W')). cbn [bind]. eauto.
Qed.

(** ** the blocks a successful mapping assigns *)
Lemma src_layer_block self sc sl : wf self -> In sc (gcols self) -> In sl (tl (glayers self)) ->
  In (src_layer self sc sl) (tl (glayers self)) /\ has_block (src_layer self sc sl) sc = true /\
  ((csurface sc <= lbottom sl)%Z -> first_below_ground self sc (src_layer self sc sl)) /\
  ((lbottom sl < csurface sc)%Z -> src_layer self sc sl = sl).
Proof.
  intros W Ic Il. unfold src_layer. destruct (Z.leb_spec (csurface sc) (lbottom sl)) as [Le|Gt].
  - destruct (surface_layer_first self sc W Ic) as [s [E F]]. rewrite E. cbn [unres].
    destruct (first_below_ground_in _ _ _ F) as [A B]. repeat split; auto. intro; lia.
  - repeat split; auto; try (intro; lia). unfold has_block. apply Z.ltb_lt. exact Gt.
Qed.

Lemma in_ug self l c : In l (tl (glayers self)) -> In c (gcols self) -> has_block l c = true ->
  In (block_name self (lname l) (cname c)) (ug_blocks self).
Proof. intros. apply ug_blocks_in. exists l, c. auto. Qed.

End Proofs.
