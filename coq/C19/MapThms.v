(** C19 -- the mapping theorems in the form quoted by Props.v. *)
From Coq Require Import Ascii String List Bool Arith ZArith QArith Lia.
From PTBase Require Import Exn PyStr.
From P Require Import Lib Transfer Wf MapProofs.
Import ListNotations.
Close Scope Q_scope.

(** ** the executable instance of [nearest] meets its specification *)
Lemma nearest_exec_spec : nearest_spec nearest_exec.
Proof.
  intros p l NE. destruct l as [|q r]; [congruence|]. unfold nearest_exec.
  destruct (argmin_v (dist2 p q) (map (dist2 p) r)) as [i m] eqn:E.
  destruct (argmin_v_spec _ _ _ _ E) as [N [L [M _]]]. cbn [fst]. rewrite map_length in L.
  split; [exact L|]. intros q' I.
  change (dist2 p q :: map (dist2 p) r) with (map (dist2 p) (q :: r)) in N, M.
  rewrite (nth_map_d _ _ _ p) in N by exact L. rewrite N. apply M. apply in_map. exact I.
Qed.

Section Thms.
Variable nearest : pt -> list pt -> nat.
Hypothesis Hn : nearest_spec nearest.

(** totality, all nine atmosphere arrangements: every underground target block gets an existing
    underground source block; every atmosphere target block an atmosphere source block when the source has any *)
Lemma block_mapping_total_l self geo : wf self -> wf geo ->
  exists m cm, block_mapping nearest self geo = Ok (m, cm) /\ map fst m = block_name_list geo /\
    (forall b, In b (ug_blocks geo) -> exists sb, dget b m = Ok sb /\ In sb (ug_blocks self)) /\
    (gatm self <> Atm2 -> forall b, In b (atm_blocks geo) -> exists sb, dget b m = Ok sb /\ In sb (atm_blocks self)).
Proof.
  intros W W'. destruct (block_mapping_ok nearest Hn self geo W W') as [m Hm].
  exists m, (CM nearest self geo). split; [exact Hm|].
  destruct (block_mapping_inv nearest Hn self geo m _ W W' Hm) as [_ [F G]]. split; [exact F|]. split.
  - intros b Ib. destruct (G b) as [v [Hv Dv]]; [rewrite (block_name_list_eq geo W'); apply in_or_app; right; exact Ib|].
    exists v. split; [exact Dv|].
    apply ug_blocks_in in Ib as [lay [c [Il [Ic [Hb E]]]]]. subst b.
    rewrite (map_block_ug nearest Hn self geo lay c W W' Il Ic) in Hv. inversion Hv; subst v.
    destruct (closest_col_ok nearest Hn self c (cols_ne self W)) as [_ [Isc _]].
    destruct (src_layer_block self _ _ W Isc (near_lay_in _ lay (tl_layers_ne self W))) as [P [Q _]].
    apply in_ug; assumption.
  - intros NA b Ib. destruct (G b) as [v [Hv Dv]]; [rewrite (block_name_list_eq geo W'); apply in_or_app; left; exact Ib|].
    exists v. split; [exact Dv|]. unfold atm_blocks in Ib. destruct (gatm geo) eqn:Eg.
    + destruct Ib as [E|[]]. subst b. rewrite (map_block_atm0 nearest self geo W W' Eg) in Hv.
      inversion Hv; subst v. unfold atm_blocks. destruct (gatm self) eqn:Es; [left; reflexivity| |congruence].
      apply in_map_iff. exists (first_col self). split; [reflexivity|apply first_col_in; exact W].
    + apply in_map_iff in Ib as [c [E Ic]]. subst b. rewrite (map_block_atm1 nearest self geo c W W' Ic Eg) in Hv.
      inversion Hv; subst v. unfold atm_blocks. destruct (gatm self) eqn:Es; [left; reflexivity| |congruence].
      apply in_map_iff. exists (near_col nearest self c). split; [reflexivity|].
      apply (closest_col_ok nearest Hn self c (cols_ne self W)).
    + destruct Ib.
Qed.

(** the "corresponding" atmosphere block *)
Lemma block_mapping_atm_l self geo m cm : wf self -> wf geo -> block_mapping nearest self geo = Ok (m, cm) ->
  (gatm self = Atm0 -> forall b, In b (atm_blocks geo) -> dget b m = Ok (block_name self (l0name self) (atmcol self))) /\
  (gatm self = Atm1 -> forall col, In col (gcols geo) -> gatm geo = Atm1 ->
     exists sc, In sc (gcols self) /\
       (forall c', In c' (gcols self) -> (dist2 (ccentre col) (ccentre sc) <= dist2 (ccentre col) (ccentre c'))%Z) /\
       dget (cname col) cm = Ok (cname sc) /\
       dget (block_name geo (l0name geo) (cname col)) m = Ok (block_name self (l0name self) (cname sc))) /\
  (gatm self = Atm1 -> gatm geo = Atm0 ->
     dget (block_name geo (l0name geo) (atmcol geo)) m = Ok (block_name self (l0name self) (cname (first_col self)))).
Proof.
  intros W W' Hm. destruct (block_mapping_inv nearest Hn self geo m cm W W' Hm) as [Ecm [F G]]. subst cm. split; [|split].
  - intros Es b Ib. destruct (G b) as [v [Hv Dv]]; [rewrite (block_name_list_eq geo W'); apply in_or_app; left; exact Ib|].
    rewrite Dv. f_equal. unfold atm_blocks in Ib. destruct (gatm geo) eqn:Eg.
    + destruct Ib as [E|[]]. subst b. rewrite (map_block_atm0 nearest self geo W W' Eg), Es in Hv. inversion Hv; reflexivity.
    + apply in_map_iff in Ib as [c [E Ic]]. subst b. rewrite (map_block_atm1 nearest self geo c W W' Ic Eg), Es in Hv.
      inversion Hv; reflexivity.
    + destruct Ib.
  - intros Es col Ic Eg. destruct (closest_col_ok nearest Hn self col (cols_ne self W)) as [_ [Isc Mn]].
    exists (near_col nearest self col). split; [exact Isc|]. split; [exact Mn|]. split; [apply CM_col; assumption|].
    destruct (G (block_name geo (l0name geo) (cname col))) as [v [Hv Dv]].
    { rewrite (block_name_list_eq geo W'). apply in_or_app; left. unfold atm_blocks. rewrite Eg.
      apply in_map_iff. exists col. split; [reflexivity|exact Ic]. }
    rewrite Dv. f_equal. rewrite (map_block_atm1 nearest self geo col W W' Ic Eg), Es in Hv. inversion Hv; reflexivity.
  - intros Es Eg. destruct (G (block_name geo (l0name geo) (atmcol geo))) as [v [Hv Dv]].
    { rewrite (block_name_list_eq geo W'). apply in_or_app; left. unfold atm_blocks. rewrite Eg. left; reflexivity. }
    rewrite Dv. f_equal. rewrite (map_block_atm0 nearest self geo W W' Eg), Es in Hv. inversion Hv; reflexivity.
Qed.

(** nearest column, nearest (first) layer, above-surface correction: the whole description of the
    block assigned to an underground target block *)
Lemma block_mapping_nearest_l self geo m cm : wf self -> wf geo -> block_mapping nearest self geo = Ok (m, cm) ->
  forall lay col, In lay (tl (glayers geo)) -> In col (gcols geo) -> has_block lay col = true ->
  exists sc sl L i,
    In sc (gcols self) /\
    (forall c', In c' (gcols self) -> (dist2 (ccentre col) (ccentre sc) <= dist2 (ccentre col) (ccentre c'))%Z) /\
    dget (cname col) cm = Ok (cname sc) /\
    nth_error (tl (glayers self)) i = Some sl /\
    (forall l, In l (tl (glayers self)) -> (Z.abs (lcentre sl - lcentre lay) <= Z.abs (lcentre l - lcentre lay))%Z) /\
    (forall j l, j < i -> nth_error (tl (glayers self)) j = Some l ->
                 (Z.abs (lcentre sl - lcentre lay) < Z.abs (lcentre l - lcentre lay))%Z) /\
    ((lbottom sl < csurface sc)%Z -> L = sl) /\
    ((csurface sc <= lbottom sl)%Z -> first_below_ground self sc L) /\
    In L (tl (glayers self)) /\ has_block L sc = true /\
    dget (block_name geo (lname lay) (cname col)) m = Ok (block_name self (lname L) (cname sc)) /\
    In (block_name self (lname L) (cname sc)) (ug_blocks self).
Proof.
  intros W W' Hm lay col Il Ic Hb.
  destruct (block_mapping_inv nearest Hn self geo m cm W W' Hm) as [Ecm [F G]]. subst cm.
  destruct (closest_col_ok nearest Hn self col (cols_ne self W)) as [_ [Isc Mn]].
  destruct (closest_lay_ok (tl (glayers self)) lay (tl_layers_ne self W)) as [i [_ [Ei [Ml Fl]]]].
  set (sc := near_col nearest self col) in *. set (sl := near_lay (tl (glayers self)) lay) in *.
  destruct (src_layer_block self sc sl W Isc (nth_error_In _ _ Ei)) as [P [Q [R S]]].
  exists sc, sl, (src_layer self sc sl), i.
  repeat (split; [first [assumption | apply CM_col; assumption]|]).
  assert (K : dget (block_name geo (lname lay) (cname col)) m = Ok (block_name self (lname (src_layer self sc sl)) (cname sc))).
  { destruct (G (block_name geo (lname lay) (cname col))) as [v [Hv Dv]].
    - rewrite (block_name_list_eq geo W'). apply in_or_app; right. apply in_ug; assumption.
    - rewrite Dv. f_equal. rewrite (map_block_ug nearest Hn self geo lay col W W' Il Ic) in Hv. inversion Hv; reflexivity. }
  split; [exact K|]. apply in_ug; assumption.
Qed.

(** ** mapping a geometry onto itself *)
Lemma dist2_zero p q : (dist2 p q <= 0)%Z -> p = q.
Proof.
  destruct p as [a b], q as [c d]. unfold dist2. cbn [fst snd]. intro H.
  pose proof (Z.square_nonneg (a - c)) as H1. pose proof (Z.square_nonneg (b - d)) as H2.
  assert (E1 : ((a - c) * (a - c) = 0)%Z) by lia. assert (E2 : ((b - d) * (b - d) = 0)%Z) by lia.
  apply Z.mul_eq_0 in E1. apply Z.mul_eq_0 in E2. f_equal; lia.
Qed.

Lemma near_col_self g col : wf g -> NoDup (map ccentre (gcols g)) -> In col (gcols g) -> near_col nearest g col = col.
Proof.
  intros W ND Ic. destruct (closest_col_ok nearest Hn g col (cols_ne g W)) as [_ [Isc Mn]].
  specialize (Mn col Ic).
  assert (Z0 : dist2 (ccentre col) (ccentre col) = 0%Z) by (unfold dist2; lia). rewrite Z0 in Mn.
  apply dist2_zero in Mn. eapply NoDup_map_inj; eauto.
Qed.

Lemma near_lay_self g lay : wf g -> NoDup (map lcentre (tl (glayers g))) -> In lay (tl (glayers g)) ->
  near_lay (tl (glayers g)) lay = lay.
Proof.
  intros W ND Il. destruct (closest_lay_ok (tl (glayers g)) lay (tl_layers_ne g W)) as [i [_ [Ei [Ml _]]]].
  specialize (Ml lay Il). unfold ldist in Ml.
  apply (NoDup_map_inj lcentre (tl (glayers g))); [exact ND|eapply nth_error_In; exact Ei|exact Il|].
  replace (lcentre lay - lcentre lay)%Z with 0%Z in Ml by lia. lia.
Qed.

Lemma pairs_diag (m : dict) : (forall d v, In (d, v) m -> v = d) -> m = map (fun b => (b, b)) (map fst m).
Proof.
  induction m as [|[d v] m IH]; intro H; [reflexivity|]. cbn [map fst].
  rewrite (H d v (or_introl eq_refl)). f_equal. apply IH. intros d' v' I. apply H. right; exact I.
Qed.

Lemma Forall2_in_r {A B} (R : A -> B -> Prop) l ys y : Forall2 R l ys -> In y ys -> exists x, In x l /\ R x y.
Proof.
  induction 1 as [|a b l ys Hab H IH]; intro I; [destruct I|].
  destruct I as [E|I]; [subst; exists a; split; [left; reflexivity|exact Hab]|].
  destruct (IH I) as [x [Ix Rx]]. exists x. split; [right; exact Ix|exact Rx].
Qed.

Lemma map_block_self g dest : wf g -> NoDup (map ccentre (gcols g)) -> NoDup (map lcentre (tl (glayers g))) ->
  In dest (block_name_list g) -> map_block g g (CM nearest g g) (LM g g) dest = Ok (dest, dest).
Proof.
  intros W NDc NDl I. rewrite (block_name_list_eq g W) in I. apply in_app_or in I as [I|I].
  - unfold atm_blocks in I. destruct (gatm g) eqn:Ea.
    + destruct I as [E|[]]. subst dest. rewrite (map_block_atm0 nearest g g W W Ea), Ea. reflexivity.
    + apply in_map_iff in I as [c [E Ic]]. subst dest. rewrite (map_block_atm1 nearest g g c W W Ic Ea), Ea.
      rewrite (near_col_self g c W NDc Ic). reflexivity.
    + destruct I.
  - apply ug_blocks_in in I as [lay [c [Il [Ic [Hb E]]]]]. subst dest.
    rewrite (map_block_ug nearest Hn g g lay c W W Il Ic).
    rewrite (near_col_self g c W NDc Ic), (near_lay_self g lay W NDl Il).
    unfold src_layer. unfold has_block in Hb. apply Z.ltb_lt in Hb.
    destruct (Z.leb_spec (csurface c) (lbottom lay)); [lia|reflexivity].
Qed.

Lemma block_mapping_self_id_l g : wf g -> NoDup (map ccentre (gcols g)) -> NoDup (map lcentre (tl (glayers g))) ->
  exists cm, block_mapping nearest g g = Ok (map (fun b => (b, b)) (block_name_list g), cm) /\
             forall c, In c (gcols g) -> dget (cname c) cm = Ok (cname c).
Proof.
  intros W NDc NDl.
  rewrite (block_mapping_unfold nearest Hn g g W W).
  rewrite (mapM_ok_map _ (fun b => (b, b))) by (intros; apply map_block_self; assumption).
  cbn [bind]. exists (CM nearest g g). split; [reflexivity|].
  intros c Ic. rewrite (CM_col nearest g g c W Ic), (near_col_self g c W NDc Ic). reflexivity.
Qed.

End Thms.
