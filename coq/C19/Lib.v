(** C19 -- small library: association lists with Python dict lookup semantics,
    [mapM] facts, first arg-min, boolean NoDup. *)
From Coq Require Import Ascii String List Bool Arith ZArith Lia.
From PTBase Require Import Exn PyStr.
Import ListNotations.

(** ** result monad facts *)
Lemma mapM_ok_map {A B} (f : A -> res B) (g : A -> B) l :
  (forall x, In x l -> f x = Ok (g x)) -> mapM f l = Ok (map g l).
Proof.
  induction l as [|a l IH]; intro H; [reflexivity|].
  cbn [mapM map]. rewrite (H a (or_introl eq_refl)). cbn [bind].
  rewrite IH by (intros x Hx; apply H; right; exact Hx). reflexivity.
Qed.

Lemma mapM_map {A B C} (f : B -> res C) (h : A -> B) l : mapM f (map h l) = mapM (fun x => f (h x)) l.
Proof. induction l as [|a l IH]; [reflexivity|]. cbn [mapM map]. rewrite IH. reflexivity. Qed.

Lemma mapM_Ok_inv {A B} (f : A -> res B) l ys :
  mapM f l = Ok ys -> Forall2 (fun x y => f x = Ok y) l ys.
Proof.
  revert ys; induction l as [|a l IH]; intros ys H; cbn [mapM] in H.
  - inversion H; constructor.
  - destruct (f a) as [b|e] eqn:Fa; cbn [bind] in H; [|discriminate].
    destruct (mapM f l) as [bs|e] eqn:Fl; cbn [bind] in H; [|discriminate].
    inversion H; subst. constructor; [exact Fa|apply IH; reflexivity].
Qed.

Lemma mapM_first_raise {A B} (f : A -> res B) a l e : f a = Raise e -> mapM f (a :: l) = Raise e.
Proof. intro H. cbn [mapM]. rewrite H. reflexivity. Qed.

Lemma mapM_app {A B} (f : A -> res B) l1 l2 :
  mapM f (l1 ++ l2) = bind (mapM f l1) (fun a => bind (mapM f l2) (fun b => Ok (a ++ b))).
Proof.
  induction l1 as [|a l1 IH]; cbn [mapM app bind].
  - destruct (mapM f l2); reflexivity.
  - destruct (f a); cbn [bind]; [|reflexivity]. rewrite IH.
    destruct (mapM f l1); cbn [bind]; [|reflexivity]. destruct (mapM f l2); reflexivity.
Qed.

(** ** Python dicts with [str] keys as association lists, newest binding first *)
Section Dict.
Context {V : Type}.
Fixpoint dget (k : str) (d : list (str * V)) : res V :=
  match d with
  | [] => Raise KeyError
  | (k', v) :: r => if str_eqb k k' then Ok v else dget k r
  end.

Lemma dget_app_notin k (a b : list (str * V)) : ~ In k (map fst a) -> dget k (a ++ b) = dget k b.
Proof.
  induction a as [|[k' v] a IH]; intro H; [reflexivity|]. cbn [app dget].
  destruct (str_eqb_spec k k') as [E|N]; [exfalso; apply H; left; symmetry; exact E|].
  apply IH. intro I; apply H; right; exact I.
Qed.

Lemma dget_in_nodup k v (a b : list (str * V)) : NoDup (map fst a) -> In (k, v) a -> dget k (a ++ b) = Ok v.
Proof.
  induction a as [|[k' v'] a IH]; intros ND I; [destruct I|]. cbn [app dget].
  cbn [map fst] in ND. inversion ND as [|? ? NI ND']; subst.
  destruct I as [E|I].
  - inversion E; subst. rewrite str_eqb_refl. reflexivity.
  - destruct (str_eqb_spec k k') as [E|N].
    + subst k'. exfalso. apply NI. apply in_map_iff. exists (k, v). split; [reflexivity|exact I].
    + apply IH; assumption.
Qed.

Lemma dget_notin k (a : list (str * V)) : ~ In k (map fst a) -> dget k a = Raise KeyError.
Proof. intro H. rewrite <- (app_nil_r a). rewrite dget_app_notin by exact H. reflexivity. Qed.

(** a dict whose values are a function of the key *)
Lemma dget_map_fn (F : str -> V) k l : In k l -> dget k (map (fun x => (x, F x)) l) = Ok (F k).
Proof.
  induction l as [|a l IH]; intro I; [destruct I|]. cbn [map dget].
  destruct (str_eqb_spec k a) as [E|N]; [subst; reflexivity|].
  apply IH. destruct I as [E|I]; [congruence|exact I].
Qed.

Lemma dget_Ok_in k v (a : list (str * V)) : dget k a = Ok v -> In (k, v) a.
Proof.
  induction a as [|[k' v'] a IH]; cbn [dget]; [discriminate|].
  destruct (str_eqb_spec k k') as [E|N]; intro H.
  - inversion H; subst. left; reflexivity.
  - right; apply IH; exact H.
Qed.
End Dict.

(** ** boolean NoDup / membership on strings *)
Definition memb (x : str) (l : list str) : bool := existsb (str_eqb x) l.
Fixpoint nodupb (l : list str) : bool :=
  match l with [] => true | x :: r => negb (memb x r) && nodupb r end.
Lemma memb_In x l : memb x l = true <-> In x l.
Proof.
  unfold memb. rewrite existsb_exists. split.
  - intros [y [I E]]. apply str_eqb_eq in E. subst; exact I.
  - intro I. exists x. split; [exact I|apply str_eqb_refl].
Qed.
Lemma memb_false x l : memb x l = false <-> ~ In x l.
Proof.
  rewrite <- memb_In. destruct (memb x l); split; intro H; try reflexivity; try discriminate;
    try (exfalso; apply H; reflexivity); try (intro; discriminate).
Qed.
Lemma nodupb_NoDup l : nodupb l = true -> NoDup l.
Proof.
  induction l as [|x l IH]; cbn [nodupb]; intro H; [constructor|].
  apply andb_prop in H as [H1 H2]. constructor; [|apply IH; exact H2].
  apply memb_false. destruct (memb x l); [discriminate|reflexivity].
Qed.

Fixpoint nodupZ (l : list Z) : bool :=
  match l with [] => true | x :: r => negb (existsb (Z.eqb x) r) && nodupZ r end.
Lemma nodupZ_NoDup l : nodupZ l = true -> NoDup l.
Proof.
  induction l as [|x l IH]; cbn [nodupZ]; intro H; [constructor|].
  apply andb_prop in H as [H1 H2]. constructor; [|apply IH; exact H2].
  intro I. apply negb_true_iff in H1. assert (existsb (Z.eqb x) l = true); [|congruence].
  apply existsb_exists. exists x. split; [exact I|apply Z.eqb_refl].
Qed.

(** NoDup of a mapped list gives injectivity on members *)
Lemma NoDup_map_inj {A B} (f : A -> B) l x y :
  NoDup (map f l) -> In x l -> In y l -> f x = f y -> x = y.
Proof.
  induction l as [|a l IH]; intros ND Ix Iy E; [destruct Ix|].
  cbn [map] in ND. inversion ND as [|? ? NI ND']; subst.
  destruct Ix as [Ex|Ix], Iy as [Ey|Iy]; subst.
  - reflexivity.
  - exfalso. apply NI. rewrite E. apply in_map; exact Iy.
  - exfalso. apply NI. rewrite <- E. apply in_map; exact Ix.
  - apply IH; assumption.
Qed.

Lemma NoDup_app_intro {A} (a b : list A) :
  NoDup a -> NoDup b -> (forall x, In x a -> ~ In x b) -> NoDup (a ++ b).
Proof.
  induction a as [|h a IH]; cbn [app]; intros Ha Hb D; [exact Hb|].
  inversion Ha as [|? ? NI Ha']; subst. constructor.
  - rewrite in_app_iff. intros [I|I]; [contradiction|]. apply (D h); [left; reflexivity|exact I].
  - apply IH; [exact Ha'|exact Hb|]. intros x Ix. apply D. right; exact Ix.
Qed.

Lemma NoDup_flat_map {A B} (f : A -> list B) l :
  NoDup l -> (forall x, In x l -> NoDup (f x)) ->
  (forall x y b, In x l -> In y l -> In b (f x) -> In b (f y) -> x = y) ->
  NoDup (flat_map f l).
Proof.
  induction l as [|a l IH]; intros ND H1 H2; [constructor|].
  cbn [flat_map]. inversion ND as [|? ? NI ND']; subst.
  apply NoDup_app_intro.
  - apply H1; left; reflexivity.
  - apply IH; [exact ND'| |].
    + intros x Ix; apply H1; right; exact Ix.
    + intros x y b Ix Iy; apply H2; right; assumption.
  - intros b Ib Ib'. apply in_flat_map in Ib' as [y [Iy Iby]].
    assert (a = y) by (apply (H2 a y b); [left; reflexivity|right; exact Iy|exact Ib|exact Iby]).
    subst y. contradiction.
Qed.

Lemma NoDup_map_inj_intro {A B} (f : A -> B) l :
  NoDup l -> (forall x y, In x l -> In y l -> f x = f y -> x = y) -> NoDup (map f l).
Proof.
  induction l as [|a l IH]; intros ND H; [constructor|]. cbn [map].
  inversion ND as [|? ? NI ND']; subst. constructor.
  - intro I. apply in_map_iff in I as [y [E Iy]].
    assert (y = a) by (apply H; [right; exact Iy|left; reflexivity|exact E]). subst; contradiction.
  - apply IH; [exact ND'|]. intros x y Ix Iy; apply H; right; assumption.
Qed.

(** ** first arg-min ([numpy.argmin]: index of the first occurrence of the minimum) *)
Fixpoint argmin_v (x : Z) (r : list Z) : nat * Z :=
  match r with
  | [] => (0, x)
  | y :: r' => let '(j, m) := argmin_v y r' in if (x <=? m)%Z then (0, x) else (S j, m)
  end.
Definition argmin_first (l : list Z) : res nat :=
  match l with [] => Raise ValueError | x :: r => Ok (fst (argmin_v x r)) end.

Lemma argmin_v_spec x r i m :
  argmin_v x r = (i, m) ->
  nth i (x :: r) 0%Z = m /\ i < S (length r) /\
  (forall y, In y (x :: r) -> (m <= y)%Z) /\
  (forall j, j < i -> (m < nth j (x :: r) 0)%Z).
Proof.
  revert x i m; induction r as [|y r IH]; intros x i m H; cbn [argmin_v] in H.
  - inversion H; subst. cbn [nth length]. split; [reflexivity|]. split; [lia|]. split; [|intros k Hk; lia].
    intros z [E|[]]; lia.
  - destruct (argmin_v y r) as [j mj] eqn:E. specialize (IH y j mj E) as [N [L [Mn F]]].
    destruct (Z.leb_spec x mj) as [Le|Gt]; inversion H; subst; clear H.
    + cbn [nth length]. split; [reflexivity|]. split; [lia|]. split; [|intros k Hk; lia].
      intros z [Ez|Iz]; [lia|]. specialize (Mn z Iz). lia.
    + cbn [length]. split; [|split; [|split]].
      * reflexivity.
      * lia.
      * intros z [Ez|Iz]; [lia|apply Mn; exact Iz].
      * intros k Hk. destruct k as [|k]; [change (nth 0 (x :: y :: r) 0%Z) with x; lia|].
        change (nth (S k) (x :: y :: r) 0%Z) with (nth k (y :: r) 0%Z). apply F. lia.
Qed.

Lemma argmin_first_spec l : l <> [] ->
  exists i, argmin_first l = Ok i /\ i < length l /\
    (forall y, In y l -> (nth i l 0 <= y)%Z) /\ (forall j, j < i -> (nth i l 0 < nth j l 0)%Z).
Proof.
  destruct l as [|x r]; [congruence|]. intros _. unfold argmin_first.
  destruct (argmin_v x r) as [i m] eqn:E. destruct (argmin_v_spec _ _ _ _ E) as [N [L [Mn F]]].
  exists i. cbn [fst length]. rewrite N. split; [reflexivity|]. split; [exact L|]. split; assumption.
Qed.

(** index of an element in a duplicate-free list is determined by the element *)
Lemma NoDup_nth_inj {A} (l : list A) d i j : NoDup l -> i < length l -> j < length l -> nth i l d = nth j l d -> i = j.
Proof. intros ND Hi Hj E. apply (proj1 (NoDup_nth l d) ND i j Hi Hj E). Qed.
