(** C19 -- ties.  The theorems quantify over every search meeting [nearest_spec]; this file says what
    that covers: two valid searches can differ only where two source centres are at EXACTLY equal
    distance; where the nearest centre is unique every valid search returns it, so the whole block
    mapping is independent of the search; and every way of resolving exact ties is a valid search.
    The first arg-min of the layer search is unique.  Hence the difference between the exact
    arithmetic of the model and the rounded arithmetic of the implementation can only show at
    near-ties (distances equal within rounding), which the check counts separately. *)
From Coq Require Import Ascii String List Bool Arith ZArith QArith Lia.
From PTBase Require Import Exn PyStr.
From P Require Import Lib Transfer Wf MapProofs MapThms.
Import ListNotations.
Close Scope Q_scope.

Definition cdist (col sc : column) : Z := dist2 (ccentre col) (ccentre sc).
(** [sc] is a source column at minimal distance from [col] *)
Definition is_argmin (self : geom) (col sc : column) : Prop :=
  In sc (gcols self) /\ forall c', In c' (gcols self) -> (cdist col sc <= cdist col c')%Z.
(** ... and the only one *)
Definition unique_argmin (self : geom) (col sc : column) : Prop :=
  In sc (gcols self) /\ forall c', In c' (gcols self) -> c' <> sc -> (cdist col sc < cdist col c')%Z.

Lemma Q_leibniz_dec (x y : Q) : {x = y} + {x <> y}.
Proof. decide equality; [apply Pos.eq_dec|apply Z.eq_dec]. Qed.
Lemma pt_leibniz_dec (x y : pt) : {x = y} + {x <> y}.
Proof. decide equality; apply Z.eq_dec. Qed.
Lemma column_eq_dec_weak (a b : column) : a = b \/ a <> b.
Proof.
  assert (D : {a = b} + {a <> b}).
  { decide equality; auto using Q_leibniz_dec, pt_leibniz_dec, Nat.eq_dec, Z.eq_dec, (list_eq_dec ascii_dec). }
  destruct D; [left|right]; assumption.
Qed.

Lemma near_col_is_argmin n self col : nearest_spec n -> gcols self <> [] -> is_argmin self col (near_col n self col).
Proof. intros Hn NE. destruct (closest_col_ok n Hn self col NE) as [_ [I M]]. split; assumption. Qed.

(** two valid searches choose columns at the same distance *)
Lemma choices_equidistant n1 n2 self col : nearest_spec n1 -> nearest_spec n2 -> gcols self <> [] ->
  cdist col (near_col n1 self col) = cdist col (near_col n2 self col).
Proof.
  intros H1 H2 NE. destruct (near_col_is_argmin n1 self col H1 NE) as [I1 M1].
  destruct (near_col_is_argmin n2 self col H2 NE) as [I2 M2].
  specialize (M1 _ I2). specialize (M2 _ I1). lia.
Qed.

(** a unique nearest centre is found by every valid search *)
Lemma unique_argmin_found n self col sc : nearest_spec n -> unique_argmin self col sc -> near_col n self col = sc.
Proof.
  intros Hn [I U]. assert (NE : gcols self <> []) by (intro E; rewrite E in I; destruct I).
  destruct (near_col_is_argmin n self col Hn NE) as [I' M].
  destruct (column_eq_dec_weak (near_col n self col) sc) as [E|N]; [exact E|].
  specialize (U _ I' N). specialize (M _ I). lia.
Qed.

(** without ties the block mapping does not depend on the search *)
Lemma block_mapping_search_independent_l n1 n2 self geo : nearest_spec n1 -> nearest_spec n2 -> wf self -> wf geo ->
  (forall col, In col (gcols geo) -> exists sc, unique_argmin self col sc) ->
  block_mapping n1 self geo = block_mapping n2 self geo.
Proof.
  intros H1 H2 W W' U.
  rewrite (block_mapping_unfold n1 H1 self geo W W'), (block_mapping_unfold n2 H2 self geo W W').
  assert (E : CM n1 self geo = CM n2 self geo).
  { unfold CM. f_equal. f_equal. apply map_ext_in. intros col I. destruct (U col I) as [sc Us].
    rewrite (unique_argmin_found n1 self col sc H1 Us), (unique_argmin_found n2 self col sc H2 Us). reflexivity. }
  rewrite E. reflexivity.
Qed.

(** ** every resolution of exact ties is a valid search *)
Definition pt_eqb (p q : pt) : bool := (fst p =? fst q)%Z && (snd p =? snd q)%Z.
Lemma pt_eqb_eq p q : pt_eqb p q = true <-> p = q.
Proof.
  destruct p as [a b], q as [c d]. unfold pt_eqb. cbn [fst snd]. rewrite andb_true_iff, !Z.eqb_eq.
  split; [intros [A B]; congruence|intro E; inversion E; auto].
Qed.
Fixpoint pts_eqb (a b : list pt) : bool :=
  match a, b with
  | [], [] => true
  | x :: a', y :: b' => pt_eqb x y && pts_eqb a' b'
  | _, _ => false
  end.
Lemma pts_eqb_eq a b : pts_eqb a b = true <-> a = b.
Proof.
  revert b; induction a as [|x a IH]; intros [|y b]; cbn [pts_eqb]; split; intro H; try reflexivity; try discriminate.
  - apply andb_prop in H as [A B]. apply pt_eqb_eq in A. apply IH in B. congruence.
  - inversion H; subst. rewrite (proj2 (pt_eqb_eq y y) eq_refl), (proj2 (IH b) eq_refl). reflexivity.
Qed.

(** the search that answers the queries of [column_mapping self geo] from a table [tab] (target centre,
    index into the source columns) and everything else with the first arg-min *)
Definition table_search (L : list pt) (tab : list (pt * nat)) (p : pt) (l : list pt) : nat :=
  if pts_eqb l L then
    match find (fun e => pt_eqb (fst e) p) tab with Some e => snd e | None => nearest_exec p l end
  else nearest_exec p l.

Lemma table_search_spec L tab :
  (forall p i, In (p, i) tab -> i < length L /\ forall q, In q L -> (dist2 p (nth i L p) <= dist2 p q)%Z) ->
  nearest_spec (table_search L tab).
Proof.
  intros T p l NE. unfold table_search. destruct (pts_eqb l L) eqn:El; [|apply nearest_exec_spec; exact NE].
  apply pts_eqb_eq in El. subst l.
  destruct (find (fun e => pt_eqb (fst e) p) tab) as [[p' i]|] eqn:F; [|apply nearest_exec_spec; exact NE].
  apply find_some in F as [I E]. cbn [fst snd] in *. apply pt_eqb_eq in E. subst p'. apply (T p i I).
Qed.

Lemma index_in {A} (x : A) l d : In x l -> exists i, i < length l /\ nth i l d = x.
Proof. intro I. apply In_nth. exact I. Qed.

(** any choice [pick] of an exactly nearest source column for every target column (target centres
    pairwise distinct) is the choice of a search meeting [nearest_spec] *)
Lemma any_tie_resolution_is_valid_l self geo (pick : column -> column) :
  NoDup (map ccentre (gcols geo)) ->
  (forall col, In col (gcols geo) -> is_argmin self col (pick col)) ->
  exists n, nearest_spec n /\ forall col, In col (gcols geo) -> near_col n self col = pick col.
Proof.
  intros ND P. set (L := map ccentre (gcols self)).
  (* table: for every target column the index of its picked source column *)
  assert (T : forall cols, (forall col, In col cols -> In col (gcols geo)) ->
            exists tab : list (pt * nat), map fst tab = map ccentre cols /\
              forall col, In col cols -> exists i, In (ccentre col, i) tab /\ i < length (gcols self) /\ nth i (gcols self) dcol = pick col).
  { induction cols as [|c cols IH]; intro Sub; [exists []; split; [reflexivity|intros ? []]|].
    destruct IH as [tab [Ek Et]]; [intros col I; apply Sub; right; exact I|].
    destruct (P c (Sub c (or_introl eq_refl))) as [Ip _]. destruct (index_in _ _ dcol Ip) as [i [Li Ni]].
    exists ((ccentre c, i) :: tab). split; [cbn [map fst]; rewrite Ek; reflexivity|].
    intros col [E|I]; [subst; exists i; split; [left; reflexivity|split; assumption]|].
    destruct (Et col I) as [j [Ij R]]. exists j. split; [right; exact Ij|exact R]. }
  destruct (T (gcols geo) (fun _ I => I)) as [tab [Ek Et]].
  assert (Tab : forall p i, In (p, i) tab -> exists col, In col (gcols geo) /\ ccentre col = p /\
                                                         i < length (gcols self) /\ nth i (gcols self) dcol = pick col).
  { intros p i I. assert (Ip : In p (map ccentre (gcols geo))) by (rewrite <- Ek; apply (in_map fst _ _ I)).
    apply in_map_iff in Ip as [col [Ec Ic]]. exists col. split; [exact Ic|]. split; [exact Ec|].
    destruct (Et col Ic) as [j [Ij R]]. rewrite Ec in Ij.
    assert (i = j); [|subst; exact R].
    assert (NDt : NoDup (map fst tab)) by (rewrite Ek; exact ND).
    assert (E2 : (p, i) = (p, j)) by (eapply (NoDup_map_inj fst tab); eauto). congruence. }
  exists (table_search L tab). split.
  - apply table_search_spec. intros p i I. destruct (Tab p i I) as [col [Ic [Ec [Li Ni]]]]. unfold L. rewrite map_length.
    split; [exact Li|]. intros q Iq. rewrite (nth_map_d _ _ _ dcol) by exact Li. rewrite Ni.
    apply in_map_iff in Iq as [c' [Eq Ic']]. subst q p. destruct (P col Ic) as [_ M]. apply (M c' Ic').
  - intros col Ic. unfold near_col, table_search. fold L. rewrite (proj2 (pts_eqb_eq L L) eq_refl).
    destruct (find (fun e => pt_eqb (fst e) (ccentre col)) tab) as [[p i]|] eqn:F.
    + apply find_some in F as [I E]. cbn [fst snd] in *. apply pt_eqb_eq in E. subst p.
      destruct (Tab _ _ I) as [col' [Ic' [Ec [Li Ni]]]].
      assert (col' = col) by (eapply (NoDup_map_inj ccentre (gcols geo)); eauto). subst col'. exact Ni.
    + exfalso. destruct (Et col Ic) as [i [Ii _]].
      apply (find_none _ _ F) in Ii. cbn [fst] in Ii. rewrite (proj2 (pt_eqb_eq _ _) eq_refl) in Ii. discriminate.
Qed.

(** ** the layer search has no freedom: the first arg-min is unique *)
Lemma first_argmin_unique (d : nat -> Z) i j :
  (forall k, (d i <= d k)%Z) -> (forall k, k < i -> (d i < d k)%Z) ->
  (forall k, (d j <= d k)%Z) -> (forall k, k < j -> (d j < d k)%Z) -> i = j.
Proof.
  intros Mi Fi Mj Fj. destruct (Nat.lt_trichotomy i j) as [L|[E|L]]; [|exact E|].
  - specialize (Fj i L). specialize (Mi j). lia.
  - specialize (Fi j L). specialize (Mj i). lia.
Qed.
