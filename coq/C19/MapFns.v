(** C19 -- the two public dictionaries on their own: mulgrid.column_mapping and mulgrid.layer_mapping
    (total on well-formed geometries, exact key sets, nearest-centre values). *)
From Coq Require Import Ascii String List Bool Arith ZArith QArith Lia.
From PTBase Require Import Exn PyStr.
From P Require Import Lib Transfer Wf MapProofs.
Import ListNotations.
Close Scope Q_scope.

Section Fns.
Variable nearest : pt -> list pt -> nat.
Hypothesis Hn : nearest_spec nearest.

Lemma column_mapping_spec_l self geo : wf self -> wf geo ->
  exists cm, column_mapping nearest self geo = Ok cm /\
    (forall col, In col (gcols geo) -> exists sc, In sc (gcols self) /\
       (forall c', In c' (gcols self) -> (dist2 (ccentre col) (ccentre sc) <= dist2 (ccentre col) (ccentre c'))%Z) /\
       dget (cname col) cm = Ok (cname sc)) /\
    (gatm self = Atm0 -> gatm geo = Atm0 -> dget (atmcol geo) cm = Ok (atmcol self)) /\
    (forall k, In k (map fst cm) <->
               In k (map cname (gcols geo)) \/ (gatm self = Atm0 /\ gatm geo = Atm0 /\ k = atmcol geo)).
Proof using Hn.
  intros W W'. exists (CM nearest self geo). split; [apply column_mapping_eq; assumption|].
  split; [|split].
  - intros col I. exists (near_col nearest self col).
    destruct (closest_col_ok nearest Hn self col (cols_ne self W)) as [_ [I' M]].
    split; [exact I'|]. split; [exact M|]. apply CM_col; assumption.
  - intros E E'. rewrite (CM_atm nearest self geo W' E'). rewrite E. reflexivity.
  - intro k. unfold CM. rewrite map_app, in_app_iff, map_rev, <- in_rev, map_map. cbn [fst].
    unfold m0. split.
    + intros [I|I]; [left; exact I|]. destruct (gatm self), (gatm geo); cbn [map fst In] in I; try (destruct I; fail).
      destruct I as [E|[]]. right. repeat split; try reflexivity. symmetry; exact E.
    + intros [I|[E [E' Ek]]]; [left; exact I|]. right. rewrite E, E'. left. symmetry; exact Ek.
Qed.

Lemma layer_mapping_spec_l self geo : wf self -> wf geo ->
  exists lm, layer_mapping self geo = Ok lm /\
    dget (l0name geo) lm = Ok (l0name self) /\
    (forall lay, In lay (tl (glayers geo)) -> exists sl i,
       nth_error (tl (glayers self)) i = Some sl /\
       (forall l, In l (tl (glayers self)) -> (Z.abs (lcentre sl - lcentre lay) <= Z.abs (lcentre l - lcentre lay))%Z) /\
       (forall j l, j < i -> nth_error (tl (glayers self)) j = Some l ->
                    (Z.abs (lcentre sl - lcentre lay) < Z.abs (lcentre l - lcentre lay))%Z) /\
       dget (lname lay) lm = Ok (lname sl)) /\
    (forall k, In k (map fst lm) <-> In k (map lname (glayers geo))).
Proof.
  intros W W'. exists (LM self geo). split; [apply layer_mapping_eq; assumption|].
  split; [apply LM_l0; exact W'|]. split.
  - intros lay I. destruct (closest_lay_ok (tl (glayers self)) lay (tl_layers_ne self W)) as [i [_ [E [M F]]]].
    exists (near_lay (tl (glayers self)) lay), i. split; [exact E|]. split; [exact M|]. split; [exact F|].
    apply LM_lay; assumption.
  - intro k. unfold LM, l0name. rewrite map_app, in_app_iff, map_rev, <- in_rev, map_map. cbn [fst map In].
    destruct (wf_layers geo W') as [g0 [g1 [gr Eg]]]. rewrite Eg. cbn [tl map In].
    split.
    + intros [I|[E|[]]]; [right; exact I|left; exact E].
    + intros [E|I]; [right; left; exact E|left; exact I].
Qed.

End Fns.
