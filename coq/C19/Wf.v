(** C19 -- consequences of the well-formedness predicate [wf]: name round trips, duplicate-free
    block names, the layer structure of a column (first layer below ground). *)
From Coq Require Import Ascii String List Bool Arith ZArith QArith Lia.
From PTBase Require Import Exn PyStr.
From P Require Import Lib Transfer.
Import ListNotations.
Close Scope Q_scope.

Definition names_ok (g : geom) : Prop :=
  forall l c, In l (map lname (glayers g)) -> In c (all_colnames g) ->
    column_name g (block_name g l c) = c /\ layer_name g (block_name g l c) = l.

Record wf_facts (g : geom) : Prop := {
  wf_conv : gconv g < 4;
  wf_nlay : 2 <= length (glayers g);
  wf_ncol : 1 <= length (gcols g);
  wf_lnodup : NoDup (map lname (glayers g));
  wf_cnodup : NoDup (all_colnames g);
  wf_names : names_ok g;
  wf_desc : descb (map lbottom (tl (glayers g))) = true;
  wf_cnl : forall c, In c (gcols g) -> cnl c = count_layers g c /\ 1 <= cnl c }.

Lemma wf_unfold g : wf g -> wf_facts g.
Proof.
  unfold wf, wfb. intro H.
  repeat (apply andb_prop in H; destruct H as [H ?]).
  constructor.
  - apply Nat.ltb_lt; assumption.
  - apply Nat.leb_le; assumption.
  - apply Nat.leb_le; assumption.
  - apply nodupb_NoDup; assumption.
  - apply nodupb_NoDup; assumption.
  - unfold names_ok, names_okb in *. intros l c Il Ic.
    match goal with Hn : forallb _ (map lname (glayers g)) = true |- _ =>
      rewrite forallb_forall in Hn; specialize (Hn l Il); rewrite forallb_forall in Hn;
      specialize (Hn c Ic); apply andb_prop in Hn; destruct Hn as [A B] end.
    apply str_eqb_eq in A. apply str_eqb_eq in B. split; assumption.
  - assumption.
  - intros c Ic.
    match goal with Hn : forallb _ (gcols g) = true |- _ =>
      rewrite forallb_forall in Hn; specialize (Hn c Ic); apply andb_prop in Hn; destruct Hn as [A B] end.
    apply Nat.eqb_eq in A. apply Nat.leb_le in B. split; assumption.
Qed.

(** the layer list of a well-formed geometry is [l0 :: rest] with [rest] non-empty *)
Lemma wf_layers g : wf g -> exists l0 l1 rest, glayers g = l0 :: l1 :: rest.
Proof.
  intro W. pose proof (wf_nlay g (wf_unfold g W)) as H.
  destruct (glayers g) as [|l0 [|l1 r]]; cbn [length] in H; try lia. eauto.
Qed.

Lemma l0name_in g : wf g -> In (l0name g) (map lname (glayers g)).
Proof.
  intro W. destruct (wf_layers g W) as [l0 [l1 [r E]]]. unfold l0name. rewrite E. left; reflexivity.
Qed.

Lemma tl_layers_in g l : In l (tl (glayers g)) -> In l (glayers g).
Proof. destruct (glayers g); cbn [tl]; [tauto|]. intro; right; assumption. Qed.

Lemma cname_in_all g c : In c (gcols g) -> In (cname c) (all_colnames g).
Proof. intro I. unfold all_colnames. apply in_or_app. left. apply in_map. exact I. Qed.

Lemma atmcol_in_all g : gatm g = Atm0 -> In (atmcol g) (all_colnames g).
Proof. intro E. unfold all_colnames. rewrite E. apply in_or_app. right. left. reflexivity. Qed.

Lemma NoDup_app_l {A} (a b : list A) : NoDup (a ++ b) -> NoDup a.
Proof.
  induction a as [|x a IH]; intro H; [constructor|]. cbn [app] in H. inversion H; subst.
  constructor; [|apply IH; assumption]. intro I. apply H2. apply in_or_app. left; exact I.
Qed.

Lemma cnames_nodup g : wf g -> NoDup (map cname (gcols g)).
Proof.
  intro W. pose proof (wf_cnodup g (wf_unfold g W)) as H. unfold all_colnames in H.
  apply NoDup_app_l in H. exact H.
Qed.

Lemma atmcol_not_cname g : wf g -> gatm g = Atm0 -> ~ In (atmcol g) (map cname (gcols g)).
Proof.
  intros W E I. pose proof (wf_cnodup g (wf_unfold g W)) as H. unfold all_colnames in H. rewrite E in H.
  rewrite NoDup_nth_error in H.
  apply In_nth_error in I as [i Hi].
  assert (Li : i < length (map cname (gcols g))) by (apply nth_error_Some; congruence).
  specialize (H i (length (map cname (gcols g)))).
  rewrite app_length in H. cbn [length] in H.
  assert (i = length (map cname (gcols g))); [|lia].
  apply H; [lia|].
  rewrite nth_error_app1 by exact Li. rewrite nth_error_app2 by lia. rewrite Nat.sub_diag. cbn [nth_error]. exact Hi.
Qed.

Lemma tl_lnames_nodup g : wf g -> NoDup (map lname (tl (glayers g))) /\ ~ In (l0name g) (map lname (tl (glayers g))).
Proof.
  intro W. pose proof (wf_lnodup g (wf_unfold g W)) as H. destruct (wf_layers g W) as [l0 [l1 [r E]]].
  unfold l0name. rewrite E in *. cbn [tl map] in *. inversion H; subst. split; assumption.
Qed.

(** lookups by name return the element itself *)
Lemma col_lookup_in cs c : NoDup (map cname cs) -> In c cs -> col_lookup cs (cname c) = Ok c.
Proof.
  induction cs as [|a cs IH]; intros ND I; [destruct I|]. cbn [col_lookup].
  cbn [map] in ND. inversion ND as [|? ? NI ND']; subst.
  destruct I as [E|I]; [subst; rewrite str_eqb_refl; reflexivity|].
  destruct (str_eqb_spec (cname c) (cname a)) as [E|N].
  - exfalso. apply NI. rewrite <- E. apply in_map. exact I.
  - apply IH; assumption.
Qed.
Lemma lay_lookup_in ls l : NoDup (map lname ls) -> In l ls -> lay_lookup ls (lname l) = Ok l.
Proof.
  induction ls as [|a ls IH]; intros ND I; [destruct I|]. cbn [lay_lookup].
  cbn [map] in ND. inversion ND as [|? ? NI ND']; subst.
  destruct I as [E|I]; [subst; rewrite str_eqb_refl; reflexivity|].
  destruct (str_eqb_spec (lname l) (lname a)) as [E|N].
  - exfalso. apply NI. rewrite <- E. apply in_map. exact I.
  - apply IH; assumption.
Qed.

(** ** block names determine their (layer name, column name) pair *)
Lemma block_name_inj g l c l' c' :
  wf g -> In l (map lname (glayers g)) -> In c (all_colnames g) ->
  In l' (map lname (glayers g)) -> In c' (all_colnames g) ->
  block_name g l c = block_name g l' c' -> l = l' /\ c = c'.
Proof.
  intros W Il Ic Il' Ic' E. pose proof (wf_names g (wf_unfold g W)) as N.
  destruct (N l c Il Ic) as [A B]. destruct (N l' c' Il' Ic') as [A' B'].
  rewrite E in A, B. split; congruence.
Qed.

Lemma ug_blocks_in g b :
  In b (ug_blocks g) <-> exists lay c, In lay (tl (glayers g)) /\ In c (gcols g) /\ has_block lay c = true /\
                                        b = block_name g (lname lay) (cname c).
Proof.
  unfold ug_blocks. rewrite in_flat_map. split.
  - intros [lay [Il Ib]]. apply in_map_iff in Ib as [c [E Ic]]. apply filter_In in Ic as [Ic Hb].
    exists lay, c. repeat split; auto.
  - intros [lay [c [Il [Ic [Hb E]]]]]. exists lay. split; [exact Il|]. apply in_map_iff. exists c. split; [auto|].
    apply filter_In. split; assumption.
Qed.

Lemma NoDup_map_of_inj {A B} (f : A -> B) (l : list A) :
  NoDup (map f l) -> NoDup l.
Proof.
  induction l as [|a l IH]; intro H; [constructor|]. cbn [map] in H. inversion H; subst.
  constructor; [|apply IH; assumption]. intro I. apply H2. apply in_map. exact I.
Qed.

Lemma NoDup_filter {A} (p : A -> bool) l : NoDup l -> NoDup (filter p l).
Proof.
  induction l as [|a l IH]; intro H; [constructor|]. inversion H; subst. cbn [filter].
  destruct (p a); [constructor|]; auto. intro I. apply filter_In in I as [I _]. contradiction.
Qed.

Lemma ug_blocks_nodup g : wf g -> NoDup (ug_blocks g).
Proof.
  intro W. unfold ug_blocks. destruct (tl_lnames_nodup g W) as [NDl _].
  pose proof (cnames_nodup g W) as NDc.
  apply NoDup_flat_map.
  - eapply NoDup_map_of_inj; exact NDl.
  - intros lay Il. apply NoDup_map_inj_intro.
    + apply NoDup_filter. eapply NoDup_map_of_inj; exact NDc.
    + intros x y Ix Iy E. apply filter_In in Ix as [Ix _]. apply filter_In in Iy as [Iy _].
      apply block_name_inj in E as [_ E]; auto using cname_in_all.
      * eapply NoDup_map_inj; eauto.
      * apply in_map, tl_layers_in; exact Il.
      * apply in_map, tl_layers_in; exact Il.
  - intros x y b Ix Iy Ibx Iby.
    apply in_map_iff in Ibx as [c [E Ic]]. apply in_map_iff in Iby as [c' [E' Ic']].
    apply filter_In in Ic as [Ic _]. apply filter_In in Ic' as [Ic' _].
    rewrite <- E' in E. apply block_name_inj in E as [E _]; auto using cname_in_all.
    + eapply NoDup_map_inj; eauto.
    + apply in_map, tl_layers_in; exact Ix.
    + apply in_map, tl_layers_in; exact Iy.
Qed.

Lemma atm_blocks_nodup g : wf g -> NoDup (atm_blocks g).
Proof.
  intro W. unfold atm_blocks. destruct (gatm g) eqn:Ea.
  - constructor; [intros []|constructor].
  - apply NoDup_map_inj_intro.
    + eapply NoDup_map_of_inj; exact (cnames_nodup g W).
    + intros x y Ix Iy E. apply block_name_inj in E as [_ E]; auto using cname_in_all, l0name_in.
      eapply NoDup_map_inj; eauto using cnames_nodup.
  - constructor.
Qed.

Lemma atm_blocks_layer g b : wf g -> In b (atm_blocks g) -> exists c, In c (all_colnames g) /\ b = block_name g (l0name g) c.
Proof.
  intros W I. unfold atm_blocks in I. destruct (gatm g) eqn:Ea.
  - destruct I as [E|[]]. exists (atmcol g). split; [apply atmcol_in_all; exact Ea|auto].
  - apply in_map_iff in I as [c [E Ic]]. exists (cname c). split; [apply cname_in_all; exact Ic|auto].
  - destruct I.
Qed.

Lemma block_name_list_nodup g : wf g -> NoDup (block_name_list g).
Proof.
  intro W. unfold block_name_list. destruct (wf_layers g W) as [l0 [l1 [r E]]]. rewrite E.
  apply NoDup_app_intro; [apply atm_blocks_nodup; exact W|apply ug_blocks_nodup; exact W|].
  intros b Ia Iu. apply atm_blocks_layer in Ia as [c [Ic Eb]]; [|exact W].
  apply ug_blocks_in in Iu as [lay [c' [Il [Ic' [_ Eb']]]]]. rewrite Eb' in Eb.
  apply block_name_inj in Eb as [El _]; auto using cname_in_all, l0name_in.
  - destruct (tl_lnames_nodup g W) as [_ NI]. apply NI. rewrite <- El. apply in_map. exact Il.
  - apply in_map, tl_layers_in; exact Il.
Qed.

Lemma block_name_list_eq g : wf g -> block_name_list g = atm_blocks g ++ ug_blocks g.
Proof. intro W. unfold block_name_list. destruct (wf_layers g W) as [l0 [l1 [r E]]]. rewrite E. reflexivity. Qed.

Lemma atm_blocks_length g : length (atm_blocks g) = num_atm_blocks g.
Proof. unfold atm_blocks, num_atm_blocks. destruct (gatm g); cbn [length]; try reflexivity. apply map_length. Qed.

Lemma skipn_atm g : wf g -> skipn (num_atm_blocks g) (block_name_list g) = ug_blocks g.
Proof.
  intro W. rewrite block_name_list_eq by exact W. rewrite <- atm_blocks_length.
  rewrite skipn_app, skipn_all, Nat.sub_diag. reflexivity.
Qed.

(** ** layers of a column: descending bottoms make the layers that hold a block a suffix *)
Lemma descb_le a r : descb (a :: r) = true -> forall x, In x r -> (x <= a)%Z.
Proof.
  revert a; induction r as [|b r IH]; intros a H x I; [destruct I|].
  cbn [descb] in H. apply andb_prop in H as [H1 H2]. apply Z.leb_le in H1.
  destruct I as [E|I]; [subst; exact H1|]. specialize (IH b H2 x I). lia.
Qed.
Lemma descb_tl a r : descb (a :: r) = true -> descb r = true.
Proof. destruct r as [|b r]; [reflexivity|]. cbn [descb]. intro H. apply andb_prop in H as [_ H]. exact H. Qed.

Lemma desc_split c L : descb (map lbottom L) = true ->
  exists pre suf, L = pre ++ suf /\ forallb (fun l => negb (has_block l c)) pre = true /\
                  forallb (fun l => has_block l c) suf = true.
Proof.
  induction L as [|a L IH]; intro H.
  - exists [], []. repeat split.
  - cbn [map] in H. destruct (has_block a c) eqn:Ha.
    + exists [], (a :: L). split; [reflexivity|]. split; [reflexivity|].
      cbn [forallb]. rewrite Ha. cbn [andb]. apply forallb_forall. intros x Ix.
      unfold has_block in *. apply Z.ltb_lt in Ha. apply Z.ltb_lt.
      pose proof (descb_le _ _ H (lbottom x) (in_map lbottom _ _ Ix)). lia.
    + destruct (IH (descb_tl _ _ H)) as [pre [suf [E [P HS]]]].
      exists (a :: pre), suf. split; [rewrite E; reflexivity|]. split; [|exact HS].
      cbn [forallb]. rewrite Ha. exact P.
Qed.

Lemma filter_all_false {A} (p : A -> bool) l : forallb (fun x => negb (p x)) l = true -> filter p l = [].
Proof.
  induction l as [|a l IH]; cbn [forallb filter]; intro H; [reflexivity|].
  apply andb_prop in H as [H1 H2]. destruct (p a); [discriminate|auto].
Qed.
Lemma filter_all_true {A} (p : A -> bool) l : forallb p l = true -> filter p l = l.
Proof.
  induction l as [|a l IH]; cbn [forallb filter]; intro H; [reflexivity|].
  apply andb_prop in H as [H1 H2]. rewrite H1. f_equal; auto.
Qed.

(** [column_surface_layer] of a column of a well-formed geometry is the first layer (below the
    atmosphere layer) that holds a block of the column: every layer before it is above ground *)
Definition first_below_ground (g : geom) (c : column) (sl : layer) : Prop :=
  exists pre suf, tl (glayers g) = pre ++ sl :: suf /\
    (forall l, In l pre -> has_block l c = false) /\ has_block sl c = true.

Lemma surface_layer_first g c : wf g -> In c (gcols g) ->
  exists sl, column_surface_layer g c = Ok sl /\ first_below_ground g c sl.
Proof.
  intros W Ic. pose proof (wf_unfold g W) as F. destruct (wf_cnl g F c Ic) as [Ec Hc].
  destruct (wf_layers g W) as [l0 [l1 [r E]]].
  destruct (desc_split c (tl (glayers g)) (wf_desc g F)) as [pre [suf [Es [P HS]]]].
  unfold count_layers in Ec. rewrite Es, filter_app, (filter_all_false _ pre P), (filter_all_true _ suf HS) in Ec.
  cbn [app] in Ec. destruct suf as [|sl suf]; [cbn [length] in Ec; lia|].
  exists sl. split.
  - unfold column_surface_layer. rewrite E in *. cbn [tl] in Es. rewrite Es.
    cbn [length]. rewrite app_length. cbn [length]. rewrite Ec. cbn [length].
    replace (S (length pre + S (length suf)) - S (length suf)) with (S (length pre)) by lia.
    cbn [nth_error]. rewrite nth_error_app2 by lia. rewrite Nat.sub_diag. reflexivity.
  - exists pre, suf. split; [exact Es|]. split.
    + intros l Il. rewrite forallb_forall in P. specialize (P l Il). destruct (has_block l c); [discriminate|reflexivity].
    + cbn [forallb] in HS. apply andb_prop in HS as [HS _]. exact HS.
Qed.

Lemma first_below_ground_unique g c a b : first_below_ground g c a -> first_below_ground g c b -> a = b.
Proof.
  intros [p1 [s1 [E1 [N1 H1]]]] [p2 [s2 [E2 [N2 H2]]]].
  rewrite E1 in E2. clear E1. revert p2 E2 N2. induction p1 as [|x p1 IH]; intros p2 E2 N2.
  - destruct p2 as [|y p2]; cbn [app] in E2; [congruence|].
    inversion E2; subst. rewrite (N2 y (or_introl eq_refl)) in H1. discriminate.
  - destruct p2 as [|y p2]; cbn [app] in E2.
    + inversion E2; subst. rewrite (N1 b (or_introl eq_refl)) in H2. discriminate.
    + inversion E2; subst. apply (IH (fun l I => N1 l (or_intror I)) p2 H3 (fun l I => N2 l (or_intror I))).
Qed.

Lemma first_below_ground_in g c sl : first_below_ground g c sl -> In sl (tl (glayers g)) /\ has_block sl c = true.
Proof. intros [p [s [E [_ H]]]]. split; [rewrite E; apply in_or_app; right; left; reflexivity|exact H]. Qed.
