(** C19 -- witnesses for Props3.v (hypotheses satisfiable; worked identity transfer). *)
From Coq Require Import Ascii String List Bool Arith ZArith QArith Lia.
From PTBase Require Import Exn PyStr.
From P Require Import Lib Transfer Wf MapProofs MapThms InconProofs Witness IdIncon MapFns.
Import ListNotations.
Close Scope Q_scope.

Example incon_self_hyps_sat :
  wf (src_of Atm1) /\ NoDup (map ccentre (gcols (src_of Atm1))) /\ NoDup (map lcentre (tl (glayers (src_of Atm1)))) /\
  map fst sinc1 = block_name_list (src_of Atm1) /\
  incon_transfer nearest_exec None sinc1 (src_of Atm1) (src_of Atm1) = Ok sinc1.
Proof.
  split; [apply wf_src|]. split; [|split; [|split]].
  - apply (NoDup_map_of_inj fst). apply nodupZ_NoDup. vm_compute. reflexivity.
  - apply nodupZ_NoDup. vm_compute. reflexivity.
  - vm_compute. reflexivity.
  - vm_compute. reflexivity.
Qed.

(** an object whose atmosphere state has three variables and the underground states two: not uniform,
    yet transferred (type-0 source onto a per-column target: broadcast, no averaging) *)
Definition sinc_mixed : incon :=
  [b_ "ATM 0" [1 # 1; 20 # 1; 5 # 1]%Q; b_ "  a 1" [10 # 1; 21 # 1]%Q; b_ "  b 1" [11 # 1; 22 # 1]%Q;
   b_ "  a 2" [12 # 1; 23 # 1]%Q; b_ "  b 2" [13 # 1; 24 # 1]%Q].

Example total_avg_hyps_sat :
  map fst sinc_mixed = block_name_list (src_of Atm0) /\ covers sinc_mixed (src_of Atm0) /\ ~ uniform sinc_mixed /\
  exists new, incon_transfer nearest_exec None sinc_mixed (src_of Atm0) (dst_of Atm1) = Ok new /\
              dget (s2l "  c 0") new = Ok (mkB [1 # 1; 20 # 1; 5 # 1]%Q None None) /\
              dget (s2l "  c 2") new = Ok (mkB [13 # 1; 24 # 1]%Q None None).
Proof.
  assert (K : map fst sinc_mixed = block_name_list (src_of Atm0)) by (vm_compute; reflexivity).
  split; [exact K|]. split; [apply covers_of_keys; exact K|]. split.
  - intros [n U].
    assert (A : length (bvar (mkB [1 # 1; 20 # 1; 5 # 1]%Q None None)) = n).
    { apply (U (s2l "ATM 0")). left. reflexivity. }
    assert (B : length (bvar (mkB [10 # 1; 21 # 1]%Q None None)) = n).
    { apply (U (s2l "  a 1")). right. left. reflexivity. }
    cbn [length bvar] in A, B. congruence.
  - eexists. split; [vm_compute; reflexivity|]. vm_compute. split; reflexivity.
Qed.

Example mapping_fns_example :
  column_mapping nearest_exec (src_of Atm0) (dst_of Atm0) = Ok [(s2l "  c", s2l "  b"); (s2l "ATM", s2l "ATM")] /\
  layer_mapping (src_of Atm0) (mkG 0 Atm0 [L0; L2; L3] [Cc]) = Ok [(s2l " 3", s2l " 2"); (s2l " 2", s2l " 2"); (s2l " 0", s2l " 0")].
Proof. split; vm_compute; reflexivity. Qed.
