(** C19 -- model of the generator bookkeeping of t2data.transfer_generators_from.

    External inputs kept abstract: [incols] (names of the target columns whose centre lies
    inside the source geometry -- quadtree + point-in-polygon search in PyTOUGH), the block
    volumes of the two grids ([svols]: source.grid.block[..].volume; [dvols]: self.grid.blocklist
    in grid order with volumes), the block and column mappings.  Every attribute of a generator
    that the transfer only deep-copies (ex, hg, fg, itab, time, enthalpy, nseq, ...) is the
    opaque tag [gtag]. *)
From Coq Require Import Ascii String List Bool Arith ZArith QArith Lia.
From PTBase Require Import Exn PyStr Wire.
From P Require Import Lib Transfer.
Import ListNotations.
Close Scope Q_scope.

Record gen := mkGen { gname : str; gblock : str; gtype : str; ggx : option Q; gltab : Z;
                      grate : list Q; gtag : nat }.

Definition tablegens : list str :=
  map s2l [" AIR"; "COM1"; "COM2"; "COM3"; "COM4"; "COM5"; "HEAT"; "MASS"; "NACL"; "TRAC"; " VOL"]%string.

Definition qzero (x : Q) : bool := (Qnum x =? 0)%Z.
(** [if gen.type in tablegens: if gen.gx: gen.gx *= r; if ntimes > 1: gen.rate = [rate * r ...]] *)
Definition scale_gen (r : Q) (g : gen) : gen :=
  if memb (gtype g) tablegens then
    mkGen (gname g) (gblock g) (gtype g)
          (match ggx g with Some x => if qzero x then Some x else Some (x * r)%Q | None => None end)
          (gltab g)
          (if (1 <? Z.abs (gltab g))%Z then map (fun x => (x * r)%Q) (grate g) else grate g)
          (gtag g)
  else g.

Fixpoint index_of (x : str) (l : list str) : option nat :=
  match l with [] => None | y :: r => if str_eqb x y then Some 0 else option_map S (index_of x r) end.
Definition fmt2d (n : nat) : str := rjust 2 (show_nat n).
(** [sum([...])]: the running sum is kept in lowest terms (same rational; the doubles of the harness have
    53-bit denominators, and an unreduced sum of n of them would carry a 53n-bit denominator) *)
Definition qadd (a b : Q) : Q := Qred (a + b).
Definition qsum (l : list Q) : Q := fold_left qadd l (0 # 1)%Q.

Fixpoint filterM {A} (p : A -> res bool) (l : list A) : res (list A) :=
  match l with
  | [] => Ok []
  | a :: r => do b <- p a; do r' <- filterM p r; Ok (if b then a :: r' else r')
  end.

Definition last_layer_name (g : geom) : res str :=
  match rev (glayers g) with l :: _ => Ok (lname l) | [] => Raise IndexError end.

Section Gen.
Variables (sourcegeo geo : geom) (tops bots : list str) (incols : list str)
          (svols dvols : list (str * Q)) (mapping colmapping : dict) (rename preserve : bool).

Definition col_generator := tops ++ bots.

Definition transfer_col_gen (g : gen) (cat sourcecolname : str) : res (list gen) :=
  do mappedcols <- filterM (fun col => if memb (cname col) incols
                                       then do mc <- dget (cname col) colmapping; Ok (str_eqb mc sourcecolname)
                                       else Ok false) (gcols geo);
  do area <- (if preserve then Ok (qsum (map carea mappedcols))
              else do c <- col_lookup (gcols sourcegeo) sourcecolname; Ok (carea c));
  mapM (fun col =>
          let g' := scale_gen (carea col / area)%Q g in
          do category <- (if Nat.eqb (gconv geo) (gconv sourcegeo) then Ok cat
                          else match index_of cat col_generator with
                               | None => Raise ValueError
                               | Some i => match nth_error [fmt2d i; cat; cat] (gconv geo) with
                                           | Some c => Ok c | None => Raise IndexError end
                               end);
          do name <- block_name_r (gconv geo) category (cname col);
          do layername <- (if memb cat tops then do l <- column_surface_layer geo col; Ok (lname l)
                           else last_layer_name geo);
          do block <- block_name_r (gconv geo) layername (cname col);
          Ok (mkGen name block (gtype g') (ggx g') (gltab g') (grate g') (gtag g')))
       mappedcols.

Definition transfer_blk_gen (g : gen) (cat : str) : res (list gen) :=
  do svol <- dget (gblock g) svols;
  do mappedblocks <- filterM (fun bv => do sb <- dget (fst bv) mapping; Ok (str_eqb sb (gblock g))) dvols;
  let vol := if preserve then qsum (map snd mappedblocks) else svol in
  mapM (fun bv =>
          let g' := scale_gen (snd bv / vol)%Q g in
          do name <- (if rename then
                        do category <- (if Nat.eqb (gconv geo) (gconv sourcegeo) then Ok cat
                                        else match nth_error [s2l " 0"; cat; cat] (gconv geo) with
                                             | Some c => Ok c | None => Raise IndexError end);
                        block_name_r (gconv geo) category (column_name geo (fst bv))
                      else Ok (gname g'));
          Ok (mkGen name (fst bv) (gtype g') (ggx g') (gltab g') (grate g') (gtag g')))
       mappedblocks.

Definition transfer_gen (g : gen) : res (list gen) :=
  let cat := layer_name sourcegeo (gname g) in
  let sourcecolname := column_name sourcegeo (gblock g) in
  if memb cat col_generator then transfer_col_gen g cat sourcecolname else transfer_blk_gen g cat.

Definition transfer_generators (gens : list gen) : res (list gen) :=
  do gss <- mapM transfer_gen gens; Ok (concat gss).
End Gen.

(** generators compared up to the value of the rationals (x * (a / a) is x only as a number) *)
Definition optq_eq (a b : option Q) : Prop :=
  match a, b with Some x, Some y => Qeq x y | None, None => True | _, _ => False end.
Definition gen_eq (a b : gen) : Prop :=
  gname a = gname b /\ gblock a = gblock b /\ gtype a = gtype b /\ optq_eq (ggx a) (ggx b) /\
  gltab a = gltab b /\ Forall2 Qeq (grate a) (grate b) /\ gtag a = gtag b.
Definition gx_val (g : gen) : Q := match ggx g with Some x => x | None => (0 # 1)%Q end.
Definition total_gx (gs : list gen) : Q := qsum (map gx_val gs).

