(** C19 -- concrete witnesses: the refutation of unconditional totality (the KeyError finding),
    satisfiability of the hypotheses of every theorem, and the composite theorems of Props.v. *)
From Coq Require Import Ascii String List Bool Arith ZArith QArith Lia.
From PTBase Require Import Exn PyStr.
From P Require Import Lib Transfer Generators Wf MapProofs MapThms InconProofs GenProofs.
Import ListNotations.
Close Scope Q_scope.

(** ** small rectangular geometries, naming convention 0 (3 characters column + 2 characters layer) *)
Definition L0 := mkL (s2l " 0") 0 0.
Definition L1 := mkL (s2l " 1") (-5) (-10).
Definition L2 := mkL (s2l " 2") (-15) (-20).
Definition L3 := mkL (s2l " 3") (-30) (-40).
Definition Ca := mkC (s2l "  a") (0, 0)%Z 0 2 (100 # 1)%Q.
Definition Cb := mkC (s2l "  b") (10, 0)%Z 0 2 (100 # 1)%Q.
(** a column whose surface sits exactly on the bottom of layer 1: no block in layer 1 *)
Definition Cb_low := mkC (s2l "  b") (10, 0)%Z (-10) 1 (100 # 1)%Q.
Definition Cc := mkC (s2l "  c") (9, 1)%Z 0 2 (50 # 1)%Q.

Definition src_of (a : atmt) := mkG 0 a [L0; L1; L2] [Ca; Cb].
Definition src_low (a : atmt) := mkG 0 a [L0; L1; L2] [Ca; Cb_low].
Definition dst_of (a : atmt) := mkG 0 a [L0; L1; L2] [Cc].

Lemma wf_src a : wf (src_of a). Proof. destruct a; vm_compute; reflexivity. Qed.
Lemma wf_src_low a : wf (src_low a). Proof. destruct a; vm_compute; reflexivity. Qed.
Lemma wf_dst a : wf (dst_of a). Proof. destruct a; vm_compute; reflexivity. Qed.

(** ** the arrangement that used to raise KeyError (target with one atmosphere block, source with one
    per column or none): the target's atmosphere block is given the atmosphere block over the first source column *)
Example former_keyerror_example :
  exists m cm, block_mapping nearest_exec (src_of Atm1) (dst_of Atm0) = Ok (m, cm) /\
    dget (s2l "ATM 0") m = Ok (s2l "  a 0") /\ dget (s2l "  c 1") m = Ok (s2l "  b 1").
Proof. eexists. eexists. split; [vm_compute; reflexivity|]. vm_compute. repeat split. Qed.

(** ** hypotheses are satisfiable *)
Example total_hyps_sat : nearest_spec nearest_exec /\ wf (src_low Atm1) /\ wf (dst_of Atm0) /\
  ug_blocks (dst_of Atm0) <> [] /\ atm_blocks (dst_of Atm0) <> [].
Proof.
  split; [exact nearest_exec_spec|]. split; [apply wf_src_low|]. split; [apply wf_dst|].
  split; vm_compute; discriminate.
Qed.

(** the above-surface correction at work: target block "  c 1" has nearest column "  b" and nearest
    layer " 1", which is above the surface of "  b"; it is given the block of the first layer below ground *)
Example above_surface_example :
  exists m cm, block_mapping nearest_exec (src_low Atm1) (dst_of Atm1) = Ok (m, cm) /\
    dget (s2l "  c 1") m = Ok (s2l "  b 2") /\ dget (s2l "  c 2") m = Ok (s2l "  b 2") /\
    dget (s2l "  c 0") m = Ok (s2l "  b 0").
Proof. eexists. eexists. split; [vm_compute; reflexivity|]. vm_compute. repeat split. Qed.

Example self_hyps_sat : wf (src_low Atm0) /\ NoDup (map ccentre (gcols (src_low Atm0))) /\
  NoDup (map lcentre (tl (glayers (src_low Atm0)))).
Proof.
  split; [apply wf_src_low|]. split.
  - apply (NoDup_map_of_inj fst). apply nodupZ_NoDup. vm_compute. reflexivity.
  - apply nodupZ_NoDup. vm_compute. reflexivity.
Qed.

(** an initial-conditions object for [src_of Atm1] in geometry order *)
Definition b_ (n : string) (vs : list Q) : str * binc := (s2l n, mkB vs None None).
Definition sinc1 : incon :=
  [b_ "  a 0" [1 # 1; 20 # 1]%Q; b_ "  b 0" [3 # 1; 30 # 1]%Q;
   (s2l "  a 1", mkB [10 # 1; 21 # 1]%Q (Some (1 # 10)%Q) (Some (2, 3)%Z)); b_ "  b 1" [11 # 1; 22 # 1]%Q;
   b_ "  a 2" [12 # 1; 23 # 1]%Q; b_ "  b 2" [13 # 1; 24 # 1]%Q].

Example incon_hyps_sat :
  map fst sinc1 = block_name_list (src_of Atm1) /\ covers sinc1 (src_of Atm1) /\ uniform sinc1 /\
  exists new, incon_transfer nearest_exec None sinc1 (src_of Atm1) (dst_of Atm1) = Ok new /\
              map fst new = map s2l ["  c 0"; "  c 1"; "  c 2"]%string.
Proof.
  split; [vm_compute; reflexivity|]. split.
  - intros b I. vm_compute in I. repeat (destruct I as [E|I]; [subst b; vm_compute; eauto|]). destruct I.
  - split.
    + exists 2. intros k st I. vm_compute in I. repeat (destruct I as [E|I]; [inversion E; reflexivity|]). destruct I.
    + eexists. split; vm_compute; reflexivity.
Qed.

(** averaging (explicit maps, target with one atmosphere block, source with one per column) *)
Example incon_average_example :
  exists new, incon_transfer nearest_exec (Some ([(s2l "  c 1", s2l "  b 1"); (s2l "  c 2", s2l "  b 2")], [(s2l "  c", s2l "  b")]))
                sinc1 (src_of Atm1) (dst_of Atm0) = Ok new /\
              dget (s2l "ATM 0") new = Ok (mkB [(4 # 1) / (2 # 1); (50 # 1) / (2 # 1)]%Q None None).
Proof. eexists. split; vm_compute; reflexivity. Qed.

(** ** generators on an identical geometry *)
Definition vols1 : list (str * Q) :=
  map (fun n => (s2l n, (1000 # 1)%Q)) ["ATM 0"; "  a 1"; "  b 1"; "  a 2"; "  b 2"]%string.
Definition gens1 : list gen :=
  [mkGen (s2l "  atp") (s2l "  a 1") (s2l "MASS") (Some (5 # 1)%Q) 0 [] 1;
   mkGen (s2l "  bbt") (s2l "  b 2") (s2l "HEAT") (Some (7 # 2)%Q) 3 [1 # 1; 2 # 1; 3 # 1]%Q 2;
   mkGen (s2l "  a 2") (s2l "  a 2") (s2l "COM1") (Some (0 # 1)%Q) 0 [] 3;
   mkGen (s2l "wel 7") (s2l "  b 1") (s2l "DELV") None 0 [] 4].

Example gen_hyps_sat :
  Forall (gen_home (src_of Atm0) [s2l "tp"] [s2l "bt"] vols1 false) gens1 /\
  map fst vols1 = block_name_list (src_of Atm0).
Proof.
  split; [|vm_compute; reflexivity].
  repeat constructor.
  - exists Ca, L1. vm_compute. repeat split; try reflexivity; try discriminate; try (left; reflexivity); try (intro; discriminate).
  - exists Cb, L2. vm_compute. repeat split; try reflexivity; try discriminate; try (right; left; reflexivity); try (intro; discriminate).
  - exists (1000 # 1)%Q. split; [vm_compute; tauto|]. split; [intro; discriminate|discriminate].
  - exists (1000 # 1)%Q. split; [vm_compute; tauto|]. split; [intro; discriminate|discriminate].
Qed.

(** ** composite: generators through the mapping of a geometry onto itself *)
Lemma generator_transfer_identity_bm nearest g m cm tops bots incols vols rename preserve gens :
  nearest_spec nearest -> wf g -> NoDup (map ccentre (gcols g)) -> NoDup (map lcentre (tl (glayers g))) ->
  block_mapping nearest g g = Ok (m, cm) ->
  map fst vols = block_name_list g ->
  (forall c, In c (gcols g) -> In (cname c) incols) ->
  Forall (gen_home g tops bots vols rename) gens ->
  exists gens', transfer_generators g g tops bots incols vols vols m cm rename preserve gens = Ok gens' /\
                Forall2 gen_eq gens' gens /\ (total_gx gens' == total_gx gens)%Q.
Proof.
  intros Hn W NDc NDl Hm Hv Hin Hg.
  destruct (block_mapping_self_id_l nearest Hn g W NDc NDl) as [cm' [E C]]. rewrite E in Hm. inversion Hm; subst m cm.
  apply generator_transfer_identity_l; auto.
  - rewrite Hv. apply block_name_list_nodup. exact W.
  - intros bv I. apply (dget_map_fn (fun b => b)). rewrite <- Hv. apply in_map. exact I.
Qed.

(** the source-unchanged statement and the transfer specification for the executable instance *)
Lemma incon_first_is_atm sinc g : wf g -> gatm g = Atm0 -> map fst sinc = block_name_list g ->
  forall st, inc_first sinc = Ok st -> dget (atmblk g) sinc = Ok st.
Proof.
  intros W Ea Hk st H. rewrite (block_name_list_eq g W) in Hk. unfold atm_blocks in Hk. rewrite Ea in Hk.
  destruct sinc as [|[k v] r]; [discriminate|]. cbn [map fst app] in Hk. inversion Hk; subst k.
  cbn [inc_first] in H. inversion H; subst v. cbn [dget]. unfold atmblk. rewrite str_eqb_refl. reflexivity.
Qed.
