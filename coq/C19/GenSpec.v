(** C19 -- t2data.transfer_generators_from onto ARBITRARY geometries and mappings: where every
    generator goes, and the exact conservation law of its rates. *)
From Coq Require Import Ascii String List Bool Arith ZArith QArith Lia Setoid.
From PTBase Require Import Exn PyStr Wire.
From P Require Import Lib Transfer Generators Wf MapProofs InconProofs GenProofs.
Import ListNotations.
Close Scope Q_scope.

(** ** list helpers *)
Lemma filterM_Ok {A} (p : A -> res bool) l r :
  filterM p l = Ok r -> r = filter (fun x => unres false (p x)) l /\ forall x, In x l -> exists b, p x = Ok b.
Proof.
  revert r; induction l as [|a l IH]; intros r H; cbn [filterM] in H.
  - inversion H. split; [reflexivity|intros x []].
  - destruct (p a) as [b|e] eqn:Pa; cbn [bind] in H; [|discriminate].
    destruct (filterM p l) as [r'|e] eqn:Fl; cbn [bind] in H; [|discriminate].
    destruct (IH r' eq_refl) as [E T]. inversion H; subst r. split.
    + cbn [filter]. rewrite Pa. cbn [unres]. rewrite <- E. reflexivity.
    + intros x [Ex|Ix]; [subst; eauto|apply T; exact Ix].
Qed.

Lemma qsum_acc l : forall x, (fold_left qadd l x == x + fold_left qadd l 0)%Q.
Proof.
  induction l as [|a l IH]; intro x; cbn [fold_left]; [ring|].
  rewrite (IH (qadd x a)), (IH (qadd 0 a)), !qadd_correct. ring.
Qed.
Lemma qsum_cons a l : (qsum (a :: l) == a + qsum l)%Q.
Proof. unfold qsum. cbn [fold_left]. rewrite qsum_acc, qadd_correct. ring. Qed.
Lemma qsum_nil : (qsum [] == 0)%Q.
Proof. reflexivity. Qed.

Lemma qsum_map_scale {A} (w : A -> Q) (x W : Q) l :
  (qsum (map (fun a => x * (w a / W)) l) == x * (qsum (map w l) / W))%Q.
Proof.
  induction l as [|a l IH]; cbn [map].
  - rewrite !qsum_nil. unfold Qdiv. ring.
  - rewrite !qsum_cons, IH. unfold Qdiv. ring.
Qed.

Lemma qsum_ext {A} (f h : A -> Q) l : (forall a, In a l -> (f a == h a)%Q) -> (qsum (map f l) == qsum (map h l))%Q.
Proof.
  induction l as [|a l IH]; intro H; cbn [map]; [reflexivity|].
  rewrite !qsum_cons, (H a (or_introl eq_refl)), IH; [reflexivity|]. intros b I; apply H; right; exact I.
Qed.

(** ** scaling law of one generator *)
Lemma qzero_eq x : qzero x = true -> (x == 0)%Q.
Proof. unfold qzero. intro H. apply Z.eqb_eq in H. unfold Qeq. cbn [Qnum Qden]. rewrite H. reflexivity. Qed.

Lemma gx_scale r g : memb (gtype g) tablegens = true -> (gx_val (scale_gen r g) == gx_val g * r)%Q.
Proof.
  intro T. unfold scale_gen, gx_val. rewrite T. cbn [ggx].
  destruct (ggx g) as [x|]; [|ring]. destruct (qzero x) eqn:Z; [|reflexivity].
  rewrite (qzero_eq x Z). ring.
Qed.
Lemma scale_gen_other r g : memb (gtype g) tablegens = false -> scale_gen r g = g.
Proof. intro T. unfold scale_gen. rewrite T. reflexivity. Qed.

Lemma nth_map_scale r l k : (nth k (map (fun x => x * r) l) 0 == nth k l 0 * r)%Q.
Proof.
  revert k; induction l as [|a l IH]; intro k; destruct k; cbn [map nth]; try ring. apply IH.
Qed.
Lemma rate_scale r g k : memb (gtype g) tablegens = true -> (1 < Z.abs (gltab g))%Z ->
  (nth k (grate (scale_gen r g)) 0 == nth k (grate g) 0 * r)%Q.
Proof.
  intros T L. unfold scale_gen. rewrite T. cbn [grate]. apply Z.ltb_lt in L. rewrite L. apply nth_map_scale.
Qed.
Lemma rate_unscaled r g : (Z.abs (gltab g) <= 1)%Z -> grate (scale_gen r g) = grate g.
Proof.
  intro L. unfold scale_gen. destruct (memb (gtype g) tablegens); [|reflexivity]. cbn [grate].
  destruct (Z.ltb_spec 1 (Z.abs (gltab g))); [lia|reflexivity].
Qed.

(** the sum over a family of copies of [g], copy [a] scaled by [w a / W] *)
Lemma family_gx_law {A} (w : A -> Q) (W : Q) g l : memb (gtype g) tablegens = true ->
  (qsum (map (fun a => gx_val (scale_gen (w a / W) g)) l) == gx_val g * (qsum (map w l) / W))%Q.
Proof.
  intro T. rewrite <- qsum_map_scale. apply qsum_ext. intros a _. apply gx_scale. exact T.
Qed.
Lemma family_rate_law {A} (w : A -> Q) (W : Q) g l k : memb (gtype g) tablegens = true -> (1 < Z.abs (gltab g))%Z ->
  (qsum (map (fun a => nth k (grate (scale_gen (w a / W) g)) 0) l) == nth k (grate g) 0 * (qsum (map w l) / W))%Q.
Proof.
  intros T L. rewrite <- qsum_map_scale. apply qsum_ext. intros a _. apply rate_scale; assumption.
Qed.
Lemma ratio_total W : ~ (W == 0)%Q -> (W / W == 1)%Q.
Proof. intro N. field. exact N. Qed.

(** ** the copies of one generator *)
(** [copies w W g outs items]: one output per item, in order, carrying the rates of [g] scaled by the
    item's weight over [W]; type, table length and opaque attributes are those of [g] *)
Definition copy_of {A} (w : A -> Q) (W : Q) (g : gen) (a : A) (o : gen) : Prop :=
  let g' := scale_gen (w a / W) g in
  gtype o = gtype g /\ ggx o = ggx g' /\ gltab o = gltab g /\ grate o = grate g' /\ gtag o = gtag g.

Lemma scale_gen_fields r g : gtype (scale_gen r g) = gtype g /\ gltab (scale_gen r g) = gltab g /\ gtag (scale_gen r g) = gtag g.
Proof. unfold scale_gen. destruct (memb (gtype g) tablegens); repeat split. Qed.

Lemma copies_total_gx {A} (w : A -> Q) W g items outs :
  Forall2 (copy_of w W g) items outs -> memb (gtype g) tablegens = true ->
  (total_gx outs == gx_val g * (qsum (map w items) / W))%Q.
Proof.
  intros F T. rewrite <- (family_gx_law w W g items T). unfold total_gx.
  induction F as [|a o items outs [_ [Gx _]] F IH]; cbn [map]; [reflexivity|].
  rewrite !qsum_cons, IH. unfold gx_val. rewrite Gx. reflexivity.
Qed.
Lemma copies_total_rate {A} (w : A -> Q) W g items outs k :
  Forall2 (copy_of w W g) items outs -> memb (gtype g) tablegens = true -> (1 < Z.abs (gltab g))%Z ->
  (qsum (map (fun o => nth k (grate o) 0) outs) == nth k (grate g) 0 * (qsum (map w items) / W))%Q.
Proof.
  intros F T L. rewrite <- (family_rate_law w W g items k T L).
  induction F as [|a o items outs [_ [_ [_ [R _]]]] F IH]; cbn [map]; [reflexivity|].
  rewrite !qsum_cons, IH, R. reflexivity.
Qed.
(** generators of the other types are copied unscaled *)
Lemma copies_unscaled {A} (w : A -> Q) W g items outs :
  Forall2 (copy_of w W g) items outs -> memb (gtype g) tablegens = false ->
  Forall (fun o => ggx o = ggx g /\ grate o = grate g) outs.
Proof.
  intros F T. induction F as [|a o items outs [_ [Gx [_ [R _]]]] F IH]; constructor; [|exact IH].
  rewrite (scale_gen_other _ g T) in Gx, R. split; assumption.
Qed.

Section Spec.
Variables (sourcegeo geo : geom) (tops bots incols : list str) (svols dvols : list (str * Q))
          (mapping colmapping : dict) (rename preserve : bool).

(** a target column receives the top/bottom generator of source column [scn]: its centre lies in the
    source geometry and the column mapping sends it to [scn] *)
Definition col_follows (scn : str) (col : column) : bool :=
  memb (cname col) incols && match dget (cname col) colmapping with Ok mc => str_eqb mc scn | Raise _ => false end.
Definition blk_follows (sb : str) (bv : str * Q) : bool :=
  match dget (fst bv) mapping with Ok b => str_eqb b sb | Raise _ => false end.

Definition last_layer (g : geom) : res layer :=
  match rev (glayers g) with l :: _ => Ok l | [] => Raise IndexError end.

(** *** top / bottom generators follow column_mapping to the target column's top / bottom block *)
Lemma transfer_col_gen_spec g cat scn outs :
  transfer_col_gen sourcegeo geo tops bots incols colmapping preserve g cat scn = Ok outs ->
  let mapped := filter (col_follows scn) (gcols geo) in
  exists area,
    (if preserve then area = qsum (map carea mapped)
     else exists c, col_lookup (gcols sourcegeo) scn = Ok c /\ area = carea c) /\
    Forall2 (copy_of carea area g) mapped outs /\
    Forall2 (fun col o => exists lay category,
               (if memb cat tops then column_surface_layer geo col else last_layer geo) = Ok lay /\
               block_name_r (gconv geo) (lname lay) (cname col) = Ok (gblock o) /\
               block_name_r (gconv geo) category (cname col) = Ok (gname o) /\
               (gconv geo = gconv sourcegeo -> category = cat)) mapped outs.
Proof.
  unfold transfer_col_gen. intro H.
  destruct (filterM _ (gcols geo)) as [mc|e] eqn:Fm; cbn [bind] in H; [|discriminate].
  destruct (filterM_Ok _ _ _ Fm) as [Em _].
  assert (Emc : mc = filter (col_follows scn) (gcols geo)).
  { rewrite Em. apply filter_ext. intro col. unfold col_follows.
    destruct (memb (cname col) incols); cbn [andb unres]; [|reflexivity].
    destruct (dget (cname col) colmapping); reflexivity. }
  clear Em Fm. cbv zeta. rewrite <- Emc. clear Emc.
  match type of H with bind ?r _ = _ => destruct r as [area|e] eqn:Ea end; cbn [bind] in H; [|discriminate].
  exists area. split.
  { destruct preserve; [inversion Ea; reflexivity|].
    destruct (col_lookup (gcols sourcegeo) scn) as [c|e]; cbn [bind] in Ea; [|discriminate].
    inversion Ea. exists c. split; reflexivity. }
  apply mapM_Ok_inv in H. clear Ea.
  assert (K : Forall2 (fun col o => copy_of carea area g col o /\ exists lay category,
               (if memb cat tops then column_surface_layer geo col else last_layer geo) = Ok lay /\
               block_name_r (gconv geo) (lname lay) (cname col) = Ok (gblock o) /\
               block_name_r (gconv geo) category (cname col) = Ok (gname o) /\
               (gconv geo = gconv sourcegeo -> category = cat)) mc outs).
  { eapply Forall2_impl'; [|exact H]. cbn beta. clear H. intros col o Ho. cbv zeta in Ho.
    match type of Ho with bind ?r _ = _ => destruct r as [category|e] eqn:Ec end; cbn [bind] in Ho; [|discriminate].
    destruct (block_name_r (gconv geo) category (cname col)) as [name|e] eqn:En; cbn [bind] in Ho; [|discriminate].
    match type of Ho with bind ?r _ = _ => destruct r as [layername|e] eqn:El end; cbn [bind] in Ho; [|discriminate].
    destruct (block_name_r (gconv geo) layername (cname col)) as [block|e] eqn:Eb; cbn [bind] in Ho; [|discriminate].
    inversion Ho; subst o; clear Ho. destruct (scale_gen_fields (carea col / area) g) as [T [L G]].
    split; [unfold copy_of; cbn [gtype ggx gltab grate gtag]; repeat split; assumption|].
    assert (EL : exists lay, (if memb cat tops then column_surface_layer geo col else last_layer geo) = Ok lay /\ lname lay = layername).
    { destruct (memb cat tops).
      - destruct (column_surface_layer geo col) as [l|e]; cbn [bind] in El; [|discriminate]. inversion El. eauto.
      - unfold last_layer_name in El. unfold last_layer. destruct (rev (glayers geo)); [discriminate|]. inversion El. eauto. }
    destruct EL as [lay [E1 E2]]. exists lay, category. cbn [gname gblock]. rewrite E2.
    repeat split; try assumption. intro Ecv. rewrite Ecv, Nat.eqb_refl in Ec. inversion Ec; reflexivity. }
  split; eapply Forall2_impl'; try exact K; cbn beta; tauto.
Qed.

(** *** every other generator follows block_mapping: one copy per target block mapped to its block *)
Lemma transfer_blk_gen_spec g cat outs :
  transfer_blk_gen sourcegeo geo svols dvols mapping rename preserve g cat = Ok outs ->
  let mapped := filter (blk_follows (gblock g)) dvols in
  exists svol vol, dget (gblock g) svols = Ok svol /\
    vol = (if preserve then qsum (map snd mapped) else svol) /\
    Forall2 (copy_of snd vol g) mapped outs /\
    Forall2 (fun bv o => gblock o = fst bv /\ (rename = false -> gname o = gname g)) mapped outs.
Proof.
  unfold transfer_blk_gen. intro H.
  destruct (dget (gblock g) svols) as [svol|e] eqn:Es; cbn [bind] in H; [|discriminate].
  destruct (filterM _ dvols) as [mb|e] eqn:Fm; cbn [bind] in H; [|discriminate].
  destruct (filterM_Ok _ _ _ Fm) as [Em _].
  assert (Emb : mb = filter (blk_follows (gblock g)) dvols).
  { rewrite Em. apply filter_ext. intro bv. unfold blk_follows. destruct (dget (fst bv) mapping); reflexivity. }
  clear Em Fm. cbv zeta. rewrite <- Emb. clear Emb. cbv zeta in H.
  exists svol, (if preserve then qsum (map snd mb) else svol). split; [reflexivity|]. split; [reflexivity|].
  apply mapM_Ok_inv in H.
  assert (K : Forall2 (fun bv o => copy_of snd (if preserve then qsum (map snd mb) else svol) g bv o /\
                                   gblock o = fst bv /\ (rename = false -> gname o = gname g)) mb outs).
  { eapply Forall2_impl'; [|exact H]. cbn beta. clear H. intros bv o Ho.
    match type of Ho with bind ?r _ = _ => destruct r as [name|e] eqn:En end; cbn [bind] in Ho; [|discriminate].
    inversion Ho; subst o; clear Ho.
    destruct (scale_gen_fields (snd bv / (if preserve then qsum (map snd mb) else svol)) g) as [T [L G]].
    split; [unfold copy_of; cbn [gtype ggx gltab grate gtag]; repeat split; assumption|].
    cbn [gname gblock]. split; [reflexivity|]. intro R. rewrite R in En. inversion En.
    unfold scale_gen. destruct (memb (gtype g) tablegens); reflexivity. }
  split; eapply Forall2_impl'; try exact K; cbn beta; tauto.
Qed.

(** *** exact conservation law, for arbitrary mappings *)
(** a top/bottom generator of a table type: the rates of its copies add up to the source rate times
    (area of the receiving columns / reference area); with preserve_totals the reference area IS the
    area of the receiving columns, so the total is exactly preserved *)
Lemma col_gen_conservation g cat scn outs :
  transfer_col_gen sourcegeo geo tops bots incols colmapping preserve g cat scn = Ok outs ->
  memb (gtype g) tablegens = true ->
  let mapped := filter (col_follows scn) (gcols geo) in
  (preserve = true -> ~ (qsum (map carea mapped) == 0)%Q ->
     (total_gx outs == gx_val g)%Q /\
     ((1 < Z.abs (gltab g))%Z -> forall k, (qsum (map (fun o => nth k (grate o) 0) outs) == nth k (grate g) 0)%Q)) /\
  (preserve = false -> exists c, col_lookup (gcols sourcegeo) scn = Ok c /\
     (total_gx outs == gx_val g * (qsum (map carea mapped) / carea c))%Q).
Proof.
  intros H T. destruct (transfer_col_gen_spec g cat scn outs H) as [area [Ea [F _]]]. cbv zeta. split.
  - intros P NZ. rewrite P in Ea. subst area. split.
    + rewrite (copies_total_gx _ _ _ _ _ F T), (ratio_total _ NZ). ring.
    + intros L k. rewrite (copies_total_rate _ _ _ _ _ k F T L), (ratio_total _ NZ). ring.
  - intro P. rewrite P in Ea. destruct Ea as [c [Ec Ea]]. subst area. exists c. split; [exact Ec|].
    apply (copies_total_gx _ _ _ _ _ F T).
Qed.

Lemma blk_gen_conservation g cat outs :
  transfer_blk_gen sourcegeo geo svols dvols mapping rename preserve g cat = Ok outs ->
  memb (gtype g) tablegens = true ->
  let mapped := filter (blk_follows (gblock g)) dvols in
  (preserve = true -> ~ (qsum (map snd mapped) == 0)%Q ->
     (total_gx outs == gx_val g)%Q /\
     ((1 < Z.abs (gltab g))%Z -> forall k, (qsum (map (fun o => nth k (grate o) 0) outs) == nth k (grate g) 0)%Q)) /\
  (preserve = false -> exists svol, dget (gblock g) svols = Ok svol /\
     (total_gx outs == gx_val g * (qsum (map snd mapped) / svol))%Q).
Proof.
  intros H T. destruct (transfer_blk_gen_spec g cat outs H) as [svol [vol [Es [Ev [F _]]]]]. cbv zeta. split.
  - intros P NZ. rewrite P in Ev. subst vol. split.
    + rewrite (copies_total_gx _ _ _ _ _ F T), (ratio_total _ NZ). ring.
    + intros L k. rewrite (copies_total_rate _ _ _ _ _ k F T L), (ratio_total _ NZ). ring.
  - intro P. rewrite P in Ev. subst vol. exists svol. split; [exact Es|].
    apply (copies_total_gx _ _ _ _ _ F T).
Qed.

(** a generator that no target column / block follows is dropped *)
Lemma transfer_gen_dropped g outs :
  transfer_gen sourcegeo geo tops bots incols svols dvols mapping colmapping rename preserve g = Ok outs ->
  (if memb (layer_name sourcegeo (gname g)) (col_generator tops bots)
   then filter (col_follows (column_name sourcegeo (gblock g))) (gcols geo)  = []
   else filter (blk_follows (gblock g)) dvols = []) -> outs = [].
Proof.
  unfold transfer_gen. destruct (memb (layer_name sourcegeo (gname g)) (col_generator tops bots)); intros H E.
  - destruct (transfer_col_gen_spec _ _ _ _ H) as [area [_ [F _]]]. cbv zeta in F. rewrite E in F. inversion F; reflexivity.
  - destruct (transfer_blk_gen_spec _ _ _ H) as [sv [v [_ [_ [F _]]]]]. cbv zeta in F. rewrite E in F. inversion F; reflexivity.
Qed.

(** the whole list: the outputs are the concatenation, in source order, of each generator's copies *)
Lemma transfer_generators_concat gens outs :
  transfer_generators sourcegeo geo tops bots incols svols dvols mapping colmapping rename preserve gens = Ok outs ->
  exists per, Forall2 (fun g os => transfer_gen sourcegeo geo tops bots incols svols dvols mapping colmapping rename preserve g = Ok os) gens per /\
              outs = concat per.
Proof.
  unfold transfer_generators. intro H.
  destruct (mapM _ gens) as [per|e] eqn:E; cbn [bind] in H; [|discriminate]. inversion H; subst outs.
  exists per. split; [apply mapM_Ok_inv; exact E|reflexivity].
Qed.

(** *** the list indexed by the target naming convention has three entries *)
Lemma index_of_in x l : In x l -> exists i, index_of x l = Some i.
Proof.
  induction l as [|y l IH]; intro I; [destruct I|]. cbn [index_of].
  destruct (str_eqb_spec x y) as [E|N]; [eauto|]. destruct IH as [i Hi]; [destruct I; congruence|].
  rewrite Hi. cbn [option_map]. eauto.
Qed.

(** a top/bottom generator transferred onto a convention-3 target from a source of another convention:
    [['%2d' % index, category, category][geo.convention]] is indexed out of range *)
Lemma transfer_col_gen_convention3 g cat scn :
  gconv geo = 3 -> gconv sourcegeo <> 3 -> In cat (col_generator tops bots) ->
  (forall col, In col (gcols geo) -> exists mc, dget (cname col) colmapping = Ok mc) ->
  filter (col_follows scn) (gcols geo) <> [] ->
  (preserve = false -> exists c, col_lookup (gcols sourcegeo) scn = Ok c) ->
  transfer_col_gen sourcegeo geo tops bots incols colmapping preserve g cat scn = Raise IndexError.
Proof.
  intros E3 N3 Ic Tm NE Hc. unfold transfer_col_gen.
  rewrite (filterM_pure _ (col_follows scn)).
  2:{ intros col I. unfold col_follows. destruct (memb (cname col) incols); cbn [andb]; [|reflexivity].
      destruct (Tm col I) as [mc E]. rewrite E. reflexivity. }
  cbn [bind]. destruct (filter (col_follows scn) (gcols geo)) as [|col rest] eqn:Ef; [congruence|].
  assert (A : exists area, (if preserve then Ok (qsum (map carea (col :: rest)))
                            else do c <- col_lookup (gcols sourcegeo) scn; Ok (carea c)) = Ok area).
  { destruct preserve; [eauto|]. destruct (Hc eq_refl) as [c E]. rewrite E. cbn [bind]. eauto. }
  destruct A as [area Ea]. rewrite Ea. cbn [bind].
  apply mapM_first_raise. cbv zeta.
  assert (F : Nat.eqb (gconv geo) (gconv sourcegeo) = false) by (apply Nat.eqb_neq; congruence).
  rewrite F. destruct (index_of_in cat _ Ic) as [i Hi]. rewrite Hi, E3. reflexivity.
Qed.

End Spec.
