(** C19 -- glue between the entry points: the column dictionary block_mapping(geo, True) hands back is
    column_mapping's, and t2incon.transfer_from given those two dictionaries explicitly does what it
    does with its default (empty) mapping arguments. *)
From Coq Require Import Ascii String List Bool Arith ZArith QArith Lia.
From PTBase Require Import Exn PyStr.
From P Require Import Lib Transfer Wf MapProofs MapThms InconProofs Witness.
Import ListNotations.
Close Scope Q_scope.

Lemma block_mapping_cm nearest self geo m cm :
  block_mapping nearest self geo = Ok (m, cm) ->
  column_mapping nearest self geo = Ok cm /\
  exists lm, layer_mapping self geo = Ok lm /\ mapM (map_block self geo cm lm) (block_name_list geo) = Ok m.
Proof.
  unfold block_mapping. destruct (column_mapping nearest self geo) as [cm'|e]; cbn [bind]; [|discriminate].
  destruct (layer_mapping self geo) as [lm|e]; cbn [bind]; [|discriminate].
  destruct (mapM (map_block self geo cm' lm) (block_name_list geo)) as [ps|e] eqn:E; cbn [bind]; [|discriminate].
  intro H. inversion H; subst. split; [reflexivity|]. exists lm. split; [reflexivity|exact E].
Qed.

Lemma incon_explicit_default nearest sinc src geo mc :
  block_mapping nearest src geo = Ok mc ->
  incon_transfer nearest (Some mc) sinc src geo = incon_transfer nearest None sinc src geo.
Proof. intro H. unfold incon_transfer. rewrite H. reflexivity. Qed.

(** when block_mapping raises, so does the default-argument transfer, with the same exception *)
Lemma incon_default_raises nearest sinc src geo e :
  block_mapping nearest src geo = Raise e -> incon_transfer nearest None sinc src geo = Raise e.
Proof. intro H. unfold incon_transfer. rewrite H. reflexivity. Qed.

Example glue_hyps_sat :
  exists mc new, block_mapping nearest_exec (src_of Atm1) (dst_of Atm1) = Ok mc /\
    incon_transfer nearest_exec (Some mc) sinc1 (src_of Atm1) (dst_of Atm1) = Ok new /\
    incon_transfer nearest_exec None sinc1 (src_of Atm1) (dst_of Atm1) = Ok new.
Proof. eexists. eexists. split; [vm_compute; reflexivity|]. split; vm_compute; reflexivity. Qed.
