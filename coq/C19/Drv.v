(** extraction of the executable C19 model ([nearest] := first arg-min) for the correspondence *)
From Coq Require Import Ascii String List Bool Arith ZArith QArith.
From PTBase Require Import Exn PyStr PyNum PyVal Wire.
From P Require Import Lib Transfer Generators DataTransfer.
Import ListNotations.
Close Scope Q_scope.

Definition comma : ascii := ","%char.
Definition colon : ascii := ":"%char.
Definition semi : ascii := ";"%char.
Definition slash : ascii := "/"%char.
Definition eqc : ascii := "="%char.

(** linear splitter ([PyStr.split_c] reverses with the quadratic extracted [rev]) *)
Fixpoint split_acc (ch : ascii) (cur : str) (s : str) : list str :=
  match s with
  | [] => [rev_append cur []]
  | c :: r => if ceqb c ch then rev_append cur [] :: split_acc ch [] r else split_acc ch (c :: cur) r
  end.
Definition split_c (ch : ascii) (s : str) : list str := split_acc ch [] s.
Definition fields (s : str) : list str := split_c tab s.
Definition items (sep : ascii) (s : str) : list str := match s with [] => [] | _ => split_c sep s end.

Definition q_of_str (s : str) : Q :=
  match split_c slash s with
  | [a; b] => Qmake (z_of_str a) (Z.to_pos (z_of_str b))
  | _ => Qmake (z_of_str s) 1
  end.
Definition show_q (q : Q) : str := show_z (Qnum q) ++ slash :: show_z (Zpos (Qden q)).

Definition dec_layer (s : str) : layer :=
  match split_c colon s with
  | [n; c; b] => mkL (unhex n) (z_of_str c) (z_of_str b)
  | _ => mkL [] 0 0
  end.
Definition dec_column (s : str) : column :=
  match split_c colon s with
  | [n; x; y; sf; nl; a] => mkC (unhex n) (z_of_str x, z_of_str y) (z_of_str sf) (nat_of_str nl) (q_of_str a)
  | _ => mkC [] (0, 0)%Z 0 0 (0 # 1)%Q
  end.
Definition dec_atm (s : str) : atmt :=
  if str_eqb s (s2l "0") then Atm0 else if str_eqb s (s2l "1") then Atm1 else Atm2.
Definition dec_geom (cv at_ ls cs : str) : geom :=
  mkG (nat_of_str cv) (dec_atm at_) (map dec_layer (items comma ls)) (map dec_column (items comma cs)).

Definition dec_pair (s : str) : str * str :=
  match split_c eqc s with [a; b] => (unhex a, unhex b) | _ => ([], []) end.
Definition dec_dict (s : str) : dict := map dec_pair (items comma s).
(** output assembly is tail-recursive: a mapping of 29000 blocks prints as ~650000 characters, and the
    extracted [app] / a naive join would need one stack frame per character *)
Fixpoint join_acc (sep : ascii) (l : list str) (acc : str) : str :=
  match l with [] => acc | a :: r => join_acc sep r (rev_append a (sep :: acc)) end.
Definition join_c (sep : ascii) (l : list str) : str :=
  match l with [] => [] | a :: r => rev_append (join_acc sep r (rev_append a [])) [] end.
Definition tapp (a b : str) : str := rev_append (rev_append a []) b.
Definition show_dict (d : dict) : str := join_c comma (map (fun kv => hex (fst kv) ++ eqc :: hex (snd kv)) d).

Definition dec_optq (s : str) : option Q := if str_eqb s (s2l "-") then None else Some (q_of_str s).
Definition dec_seq (s : str) : option (Z * Z) :=
  match split_c semi s with [a; b] => Some (z_of_str a, z_of_str b) | _ => None end.
Definition dec_binc (s : str) : str * binc :=
  match split_c colon s with
  | [n; p; sq; vs] => (unhex n, mkB (map q_of_str (items semi vs)) (dec_optq p) (dec_seq sq))
  | _ => ([], mkB [] None None)
  end.
Definition dec_incon (s : str) : incon := map dec_binc (items comma s).
Definition show_binc (kb : str * binc) : str :=
  let b := snd kb in
  hex (fst kb) ++ colon :: (match bpor b with None => s2l "-" | Some q => show_q q end) ++
  colon :: (match bseq b with None => s2l "-" | Some (x, y) => show_z x ++ semi :: show_z y end) ++
  colon :: join_c semi (map show_q (bvar b)).
Definition show_incon (i : incon) : str := join_c comma (map show_binc i).

Definition raise_line (e : exn) : str := s2l "RAISE " ++ show_exn e.

Definition show_gen (g : gen) : str :=
  hex (gname g) ++ colon :: hex (gblock g) ++ colon :: hex (gtype g) ++ colon :: (match ggx g with Some x => show_q x | None => s2l "-" end) ++
  colon :: show_z (gltab g) ++ colon :: join_c semi (map show_q (grate g)) ++ colon :: show_nat (gtag g).
Definition dec_gen (s : str) : gen :=
  match split_c colon s with
  | [n; b; t; x; lt; rs; tg] => mkGen (unhex n) (unhex b) (unhex t) (dec_optq x) (z_of_str lt) (map q_of_str (items semi rs)) (nat_of_str tg)
  | _ => mkGen [] [] [] None 0 [] 0
  end.
Definition dec_vol (s : str) : str * Q :=
  match split_c eqc s with [a; b] => (unhex a, q_of_str b) | _ => ([], (0 # 1)%Q) end.

(** t2data objects: source blocks "hexname:hexrock:vol", rock list, print block ("-" = None), incon dict "hexname=tag" *)
Definition dec_sblock (s : str) : str * (str * Q) :=
  match split_c colon s with [n; r; v] => (unhex n, (unhex r, q_of_str v)) | _ => ([], ([], (0 # 1)%Q)) end.
Definition dec_tagged (s : str) : str * nat :=
  match split_c eqc s with [a; b] => (unhex a, nat_of_str b) | _ => ([], 0) end.
Definition show_t2d (d : t2d) : str :=
  tapp (join_c comma (map (fun b => hex (fst b) ++ eqc :: hex (fst (snd b))) (dblocks d)))
       (tab :: tapp (join_c comma (map hex (drocks d)))
       (tab :: tapp (match dprint d with None => s2l "-" | Some p => hex p end)
       (tab :: tapp (join_c comma (map show_gen (dgens d)))
       (tab :: join_c comma (map (fun kv => hex (fst kv) ++ eqc :: show_nat (snd kv)) (dincon d)))))).

Definition run_case (line : str) : str :=
  match fields line with
  | [k; c; a; l; cs] =>
      if str_eqb k (s2l "wf") then
        let g := dec_geom c a l cs in
        show_bool (wfb g) ++ show_bool (nodupZ2 (map ccentre (gcols g))) ++
        show_bool (nodupZ (map lcentre (tl (glayers g))))
      else if str_eqb k (s2l "bl") then
        let g := dec_geom c a l cs in join_c comma (map hex (block_name_list g))
      else s2l "BADCASE"
  | [k; c1; a1; l1; cs1; c2; a2; l2; cs2] =>
      if str_eqb k (s2l "bm") then
        match block_mapping nearest_exec (dec_geom c1 a1 l1 cs1) (dec_geom c2 a2 l2 cs2) with
        | Ok (m, cm) => s2l "OK" ++ tab :: tapp (show_dict m) (tab :: show_dict cm)
        | Raise e => raise_line e
        end
      else s2l "BADCASE"
  | [k; mf; mp; cmp; c1; a1; l1; cs1; c2; a2; l2; cs2; inc] =>
      if str_eqb k (s2l "it") then
        let maps := if str_eqb mf (s2l "m") then Some (dec_dict mp, dec_dict cmp) else None in
        match incon_transfer nearest_exec maps (dec_incon inc) (dec_geom c1 a1 l1 cs1) (dec_geom c2 a2 l2 cs2) with
        | Ok i => s2l "OK" ++ tab :: show_incon i
        | Raise e => raise_line e
        end
      else s2l "BADCASE"
  | [k; c1; a1; l1; cs1; c2; a2; l2; cs2; flags; tops; bots; incols; svols; dvols; gens] =>
      if str_eqb k (s2l "tg") then
        let src := dec_geom c1 a1 l1 cs1 in let dst := dec_geom c2 a2 l2 cs2 in
        match block_mapping nearest_exec src dst with
        | Raise e => raise_line e
        | Ok (m, cm) =>
            let rename := match flags with r :: _ => ceqb r "1"%char | [] => false end in
            let preserve := match flags with _ :: p :: _ => ceqb p "1"%char | _ => false end in
            match transfer_generators src dst (map unhex (items comma tops)) (map unhex (items comma bots))
                    (map unhex (items comma incols)) (map dec_vol (items comma svols)) (map dec_vol (items comma dvols))
                    m cm rename preserve (map dec_gen (items comma gens)) with
            | Ok gs => s2l "OK" ++ tab :: join_c comma (map show_gen gs)
            | Raise e => raise_line e
            end
        end
      else s2l "BADCASE"
  | [k; c1; a1; l1; cs1; c2; a2; l2; cs2; flags; tops; bots; incols; sblocks; rocks; pblock; dgrid; gens; inc] =>
      if str_eqb k (s2l "tf") then
        let src := dec_geom c1 a1 l1 cs1 in let dst := dec_geom c2 a2 l2 cs2 in
        let rename := match flags with r :: _ => ceqb r "1"%char | [] => false end in
        let preserve := match flags with _ :: p :: _ => ceqb p "1"%char | _ => false end in
        let sd := mkD (map dec_sblock (items comma sblocks)) (map unhex (items comma rocks))
                      (if str_eqb pblock (s2l "-") then None else Some (unhex pblock))
                      (map dec_gen (items comma gens)) (map dec_tagged (items comma inc)) 0 in
        match data_transfer nearest_exec sd src dst (map dec_vol (items comma dgrid)) (map unhex (items comma incols))
                (map unhex (items comma tops)) (map unhex (items comma bots)) rename preserve None with
        | Ok (d, _) => s2l "OK" ++ tab :: show_t2d d
        | Raise e => raise_line e
        end
      else s2l "BADCASE"
  | _ => s2l "BADCASE"
  end.

Require Extraction.
Require Import ExtrOcamlBasic ExtrOcamlString.
Extraction "Drv.ml" run_case.
