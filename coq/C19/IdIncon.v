(** C19 -- t2incon.transfer_from onto the SAME geometry is the identity on the initial-conditions
    object, and totality of the transfer without the equal-length assumption outside the one
    arrangement that averages (single target atmosphere block over a per-column source). *)
From Coq Require Import Ascii String List Bool Arith ZArith QArith Lia.
From PTBase Require Import Exn PyStr.
From P Require Import Lib Transfer Wf MapProofs MapThms InconProofs Witness.
Import ListNotations.
Close Scope Q_scope.

(** two association lists with the same duplicate-free key sequence and the same lookups are equal *)
Lemma assoc_ext {V} (a b : list (str * V)) : map fst a = map fst b -> NoDup (map fst a) ->
  (forall k, In k (map fst a) -> dget k a = dget k b) -> a = b.
Proof.
  revert b. induction a as [|[k v] a IH]; intros [|[k' v'] b] E ND H; try discriminate; [reflexivity|].
  cbn [map fst] in E, ND. inversion E as [[Ek Et]]. subst k'. inversion ND as [|? ? Nk ND']; subst.
  assert (Ev : v = v').
  { specialize (H k (or_introl eq_refl)). cbn [dget] in H. rewrite str_eqb_refl in H. congruence. }
  subst v'. f_equal. apply IH; [exact Et|exact ND'|].
  intros k2 I2. specialize (H k2 (or_intror I2)). cbn [dget] in H.
  destruct (str_eqb_spec k2 k) as [Ekk|_]; [subst k2; contradiction|exact H].
Qed.

Lemma covers_of_keys (sinc : incon) g : map fst sinc = block_name_list g -> covers sinc g.
Proof.
  intros E b I. rewrite <- E in I. clear E. induction sinc as [|[k v] r IH]; [destruct I|].
  cbn [dget]. destruct (str_eqb_spec b k) as [_|N]; [eauto|].
  apply IH. destruct I as [E|I]; [cbn [fst] in E; congruence|exact I].
Qed.

Section IdIncon.
Variable nearest : pt -> list pt -> nat.
Hypothesis Hn : nearest_spec nearest.

(** totality: equal numbers of variables are needed only where the states are averaged *)
Lemma incon_transfer_total_avg sinc src geo : wf src -> wf geo -> covers sinc src ->
  (gatm geo = Atm0 -> gatm src = Atm1 -> uniform sinc) ->
  exists new, incon_transfer nearest None sinc src geo = Ok new.
Proof using Hn.
  intros W W' C HU. unfold incon_transfer.
  destruct (block_mapping_ok nearest Hn src geo W W') as [m Hm]. rewrite Hm. cbn [bind fst snd].
  destruct (block_mapping_inv nearest Hn src geo m _ W W' Hm) as [_ [F G]].
  destruct (covers_first sinc src W C) as [st0 H0].
  assert (CA : forall b, In b (atm_blocks src) -> exists st, dget b sinc = Ok st).
  { intros b I. apply C. rewrite (block_name_list_eq src W). apply in_or_app; left; exact I. }
  assert (CU : forall b, In b (ug_blocks src) -> exists st, dget b sinc = Ok st).
  { intros b I. apply C. rewrite (block_name_list_eq src W). apply in_or_app; right; exact I. }
  assert (A : exists a, atm_pairs sinc src geo (CM nearest src geo) = Ok a).
  { unfold atm_pairs. destruct (gatm geo) eqn:Eg.
    - destruct (gatm src) eqn:Es.
      + rewrite H0. cbn [bind]. eauto.
      + destruct (HU eq_refl eq_refl) as [n U]. rewrite H0. cbn [bind].
        assert (L0 : length (bvar st0) = n).
        { destruct sinc as [|[k v] r]; [discriminate|]. cbn [inc_first] in H0. inversion H0; subst v.
          apply (U k st0). left; reflexivity. }
        assert (T : forall col, In col (gcols src) -> exists y,
                   (fun col => do b <- dget (block_name src (l0name src) (cname col)) sinc; Ok (bvar b)) col = Ok y).
        { intros col Ic. cbn beta. destruct (CA (block_name src (l0name src) (cname col))) as [st Hst].
          - unfold atm_blocks. rewrite Es. apply in_map_iff. exists col. split; [reflexivity|exact Ic].
          - rewrite Hst. cbn [bind]. eauto. }
        rewrite (mapM_total_fn _ [] _ T). cbn [bind].
        match goal with |- exists a, bind (vsum ?acc ?vs) _ = _ => destruct (vsum_total vs acc) as [s Hs] end.
        { rewrite map_length. apply Forall_forall. intros v Iv. apply in_map_iff in Iv as [col [Ev Ic]].
          destruct (CA (block_name src (l0name src) (cname col))) as [st Hst].
          - unfold atm_blocks. rewrite Es. apply in_map_iff. exists col. split; [reflexivity|exact Ic].
          - rewrite Hst in Ev. cbn [bind unres] in Ev. subst v. rewrite L0. apply (U _ _ (dget_Ok_in _ _ _ Hst)). }
        rewrite Hs. cbn [bind]. eauto.
      + eauto.
    - destruct (gatm src) eqn:Es.
      + apply (mapM_keyed_total (fun col => block_name geo (l0name geo) (cname col)) (fun _ => inc_first sinc)). intros; eauto.
      + assert (T : forall col, In col (gcols geo) -> exists v,
                   (fun col => do mc <- dget (cname col) (CM nearest src geo); dget (block_name src (l0name src) mc) sinc) col = Ok v).
        { intros col Ic. cbn beta. rewrite (CM_col nearest src geo col W' Ic). cbn [bind]. apply CA.
          unfold atm_blocks. rewrite Es. apply in_map_iff. exists (near_col nearest src col). split; [reflexivity|].
          apply (closest_col_ok nearest Hn src col (cols_ne src W)). }
        destruct (mapM_keyed_total (fun col => block_name geo (l0name geo) (cname col)) _ _ T) as [ps Hps].
        exists ps. rewrite <- Hps. clear. induction (gcols geo) as [|c l IH]; [reflexivity|]. cbn [mapM]. rewrite IH.
        destruct (dget (cname c) (CM nearest src geo)); cbn [bind]; reflexivity.
      + eauto.
    - eauto. }
  destruct A as [a Ha]. rewrite Ha. cbn [bind].
  assert (U' : exists u, ug_pairs sinc geo m = Ok u).
  { unfold ug_pairs. rewrite (skipn_atm geo W').
    assert (T : forall b, In b (ug_blocks geo) -> exists v, (fun blk => do sb <- dget blk m; dget sb sinc) b = Ok v).
    { intros b Ib. cbn beta. destruct (G b) as [v [Hv Dv]].
      { rewrite (block_name_list_eq geo W'). apply in_or_app; right; exact Ib. }
      rewrite Dv. cbn [bind]. apply CU.
      apply ug_blocks_in in Ib as [lay [c [Il [Ic [Hb E]]]]]. subst b.
      rewrite (map_block_ug nearest Hn src geo lay c W W' Il Ic) in Hv. inversion Hv; subst v.
      destruct (closest_col_ok nearest Hn src c (cols_ne src W)) as [_ [Isc _]].
      destruct (src_layer_block src _ _ W Isc (near_lay_in _ lay (tl_layers_ne src W))) as [P [Q _]].
      apply in_ug; assumption. }
    destruct (mapM_keyed_total (fun x : str => x) _ _ T) as [ps Hps].
    exists ps. rewrite <- Hps. clear. induction (ug_blocks geo) as [|c l IH]; [reflexivity|]. cbn [mapM]. rewrite IH.
    destruct (dget c m); cbn [bind]; reflexivity. }
  destruct U' as [u Hu]. rewrite Hu. cbn [bind]. eauto.
Qed.

(** identity: an object in the geometry's block order transferred onto the same geometry comes back equal *)
Lemma incon_transfer_self_id_l sinc g : wf g ->
  NoDup (map ccentre (gcols g)) -> NoDup (map lcentre (tl (glayers g))) ->
  map fst sinc = block_name_list g ->
  incon_transfer nearest None sinc g g = Ok sinc.
Proof using Hn.
  intros W NDc NDl K.
  pose proof (covers_of_keys sinc g K) as C.
  destruct (incon_transfer_total_avg sinc g g W W C) as [new Hnew].
  { intros E E'. rewrite E in E'. discriminate. }
  rewrite Hnew. f_equal.
  destruct (incon_transfer_spec_l nearest None sinc g g new W W Hnew) as [m [cm [Hm [Kn [Hu Ha]]]]].
  destruct (block_mapping_self_id_l nearest Hn g W NDc NDl) as [cm' [Hid Hcm]].
  rewrite Hid in Hm. inversion Hm; subst m cm'. clear Hm.
  apply assoc_ext.
  - rewrite Kn, K. reflexivity.
  - rewrite Kn. apply block_name_list_nodup; exact W.
  - intros k Ik. rewrite Kn, (block_name_list_eq g W) in Ik. apply in_app_or in Ik as [Ik|Ik].
    + unfold atm_spec in Ha. unfold atm_blocks in Ik. destruct (gatm g) eqn:Eg.
      * destruct Ik as [Ek|[]]. subst k. destruct Ha as [st [H1 H2]]. fold (atmblk g). rewrite H2.
        symmetry. apply (incon_first_is_atm sinc g W Eg K st H1).
      * apply in_map_iff in Ik as [col [Ek Ic]]. subst k. destruct (Ha col Ic) as [mc [st [H1 [H2 H3]]]].
        rewrite (Hcm col Ic) in H1. inversion H1; subst mc. unfold colblk in H3. rewrite H3, H2. reflexivity.
      * destruct Ik.
    + destruct (Hu k Ik) as [sb [st [H1 [H2 H3]]]].
      rewrite dget_map_fn in H1 by (rewrite (block_name_list_eq g W); apply in_or_app; right; exact Ik).
      inversion H1; subst sb. rewrite H3, H2. reflexivity.
Qed.

End IdIncon.
