(** C19 -- property theorems, third group (round 6): the two public dictionaries on their own
    (mulgrid.column_mapping, mulgrid.layer_mapping: total, exact key sets, nearest-centre values),
    t2incon.transfer_from onto the SAME geometry is the identity on the whole object, and totality of
    t2incon.transfer_from without the equal-length assumption outside the one averaging arrangement.
    Same conventions as Props.v: [exact] of a lemma proved elsewhere + Print Assumptions. *)
From Coq Require Import Ascii String List Bool Arith ZArith QArith.
From PTBase Require Import Exn PyStr.
From P Require Import Lib Transfer Wf MapProofs MapThms InconProofs Witness IdIncon MapFns Witness3 Glue.
Import ListNotations.
Close Scope Q_scope.

(** ** mulgrid.column_mapping(geo) *)
(** returns a dictionary whose keys are exactly the target's column names (plus the target's atmosphere
    column name when both geometries have a single atmosphere block, mapped to the source's); every
    target column is given a source column whose centre is at minimal distance from its centre *)
Theorem column_mapping_spec : forall nearest, nearest_spec nearest -> forall self geo, wf self -> wf geo ->
  exists cm, column_mapping nearest self geo = Ok cm /\
    (forall col, In col (gcols geo) -> exists sc, In sc (gcols self) /\
       (forall c', In c' (gcols self) -> (dist2 (ccentre col) (ccentre sc) <= dist2 (ccentre col) (ccentre c'))%Z) /\
       dget (cname col) cm = Ok (cname sc)) /\
    (gatm self = Atm0 -> gatm geo = Atm0 -> dget (atmcol geo) cm = Ok (atmcol self)) /\
    (forall k, In k (map fst cm) <->
               In k (map cname (gcols geo)) \/ (gatm self = Atm0 /\ gatm geo = Atm0 /\ k = atmcol geo)).
Proof. exact column_mapping_spec_l. Qed.
Print Assumptions column_mapping_spec.

(** ** mulgrid.layer_mapping(geo) *)
(** returns a dictionary whose keys are exactly the target's layer names; the atmosphere layer goes to
    the source's atmosphere layer, every other target layer to the FIRST source layer (below the
    atmosphere layer) whose centre is at minimal distance from its centre *)
Theorem layer_mapping_spec : forall self geo, wf self -> wf geo ->
  exists lm, layer_mapping self geo = Ok lm /\
    dget (l0name geo) lm = Ok (l0name self) /\
    (forall lay, In lay (tl (glayers geo)) -> exists sl i,
       nth_error (tl (glayers self)) i = Some sl /\
       (forall l, In l (tl (glayers self)) -> (Z.abs (lcentre sl - lcentre lay) <= Z.abs (lcentre l - lcentre lay))%Z) /\
       (forall j l, j < i -> nth_error (tl (glayers self)) j = Some l ->
                    (Z.abs (lcentre sl - lcentre lay) < Z.abs (lcentre l - lcentre lay))%Z) /\
       dget (lname lay) lm = Ok (lname sl)) /\
    (forall k, In k (map fst lm) <-> In k (map lname (glayers geo))).
Proof. exact layer_mapping_spec_l. Qed.
Print Assumptions layer_mapping_spec.
Theorem mapping_functions_example :
  column_mapping nearest_exec (src_of Atm0) (dst_of Atm0) = Ok [(s2l "  c", s2l "  b"); (s2l "ATM", s2l "ATM")] /\
  layer_mapping (src_of Atm0) (mkG 0 Atm0 [L0; L2; L3] [Cc]) = Ok [(s2l " 3", s2l " 2"); (s2l " 2", s2l " 2"); (s2l " 0", s2l " 0")].
Proof. exact mapping_fns_example. Qed.
Print Assumptions mapping_functions_example.

(** ** t2incon.transfer_from onto the same geometry: identity *)
(** an initial-conditions object listing the geometry's blocks in the geometry's order, transferred
    (default mappings) onto the same geometry - pairwise distinct column centres and layer centres -
    comes back equal: same blocks, same order, same states (variables, porosity, nseq/nadd), for all
    three atmosphere types, any number of variables per block *)
Theorem incon_transfer_self_identity : forall nearest, nearest_spec nearest -> forall sinc g, wf g ->
  NoDup (map ccentre (gcols g)) -> NoDup (map lcentre (tl (glayers g))) ->
  map fst sinc = block_name_list g ->
  incon_transfer nearest None sinc g g = Ok sinc.
Proof. exact incon_transfer_self_id_l. Qed.
Print Assumptions incon_transfer_self_identity.
Theorem incon_transfer_self_identity_hypotheses_satisfiable :
  wf (src_of Atm1) /\ NoDup (map ccentre (gcols (src_of Atm1))) /\ NoDup (map lcentre (tl (glayers (src_of Atm1)))) /\
  map fst sinc1 = block_name_list (src_of Atm1) /\
  incon_transfer nearest_exec None sinc1 (src_of Atm1) (src_of Atm1) = Ok sinc1.
Proof. exact incon_self_hyps_sat. Qed.
Print Assumptions incon_transfer_self_identity_hypotheses_satisfiable.

(** ** totality of t2incon.transfer_from, sharpened *)
(** equal numbers of variables in all states (hypothesis [uniform] of incon_transfer_total) are needed
    only in the one arrangement that adds states up: a single target atmosphere block over a per-column
    source; in the other eight the transfer succeeds for every source object covering the source's blocks *)
Theorem incon_transfer_total_averaging_only : forall nearest, nearest_spec nearest -> forall sinc src geo,
  wf src -> wf geo -> covers sinc src ->
  (gatm geo = Atm0 -> gatm src = Atm1 -> uniform sinc) ->
  exists new, incon_transfer nearest None sinc src geo = Ok new.
Proof. exact incon_transfer_total_avg. Qed.
Print Assumptions incon_transfer_total_averaging_only.
Theorem incon_transfer_total_nonuniform_example :
  map fst sinc_mixed = block_name_list (src_of Atm0) /\ covers sinc_mixed (src_of Atm0) /\ ~ uniform sinc_mixed /\
  exists new, incon_transfer nearest_exec None sinc_mixed (src_of Atm0) (dst_of Atm1) = Ok new /\
              dget (s2l "  c 0") new = Ok (mkB [1 # 1; 20 # 1; 5 # 1]%Q None None) /\
              dget (s2l "  c 2") new = Ok (mkB [13 # 1; 24 # 1]%Q None None).
Proof. exact total_avg_hyps_sat. Qed.
Print Assumptions incon_transfer_total_nonuniform_example.

(** ** glue between the entry points *)
(** the second dictionary returned by block_mapping(geo, True) is column_mapping(geo)'s (so
    column_mapping_spec describes it), and the block dictionary is one map_block step per block of the
    target's block_name_list with that dictionary and layer_mapping(geo)'s; no well-formedness assumed *)
Theorem block_mapping_returns_column_mapping : forall nearest self geo m cm,
  block_mapping nearest self geo = Ok (m, cm) ->
  column_mapping nearest self geo = Ok cm /\
  exists lm, layer_mapping self geo = Ok lm /\ mapM (map_block self geo cm lm) (block_name_list geo) = Ok m.
Proof. exact block_mapping_cm. Qed.
Print Assumptions block_mapping_returns_column_mapping.
(** t2incon.transfer_from given the two dictionaries of sourcegeo.block_mapping(geo, True) explicitly
    returns (or raises) exactly what it does with its default mapping arguments: any source object, any
    geometries *)
Theorem incon_transfer_explicit_equals_default : forall nearest sinc src geo mc,
  block_mapping nearest src geo = Ok mc ->
  incon_transfer nearest (Some mc) sinc src geo = incon_transfer nearest None sinc src geo.
Proof. exact incon_explicit_default. Qed.
Print Assumptions incon_transfer_explicit_equals_default.
(** an exception of block_mapping passes through the default-argument transfer unchanged *)
Theorem incon_transfer_default_propagates_mapping_error : forall nearest sinc src geo e,
  block_mapping nearest src geo = Raise e -> incon_transfer nearest None sinc src geo = Raise e.
Proof. exact incon_default_raises. Qed.
Print Assumptions incon_transfer_default_propagates_mapping_error.
Theorem incon_transfer_explicit_equals_default_example :
  exists mc new, block_mapping nearest_exec (src_of Atm1) (dst_of Atm1) = Ok mc /\
    incon_transfer nearest_exec (Some mc) sinc1 (src_of Atm1) (dst_of Atm1) = Ok new /\
    incon_transfer nearest_exec None sinc1 (src_of Atm1) (dst_of Atm1) = Ok new.
Proof. exact glue_hyps_sat. Qed.
Print Assumptions incon_transfer_explicit_equals_default_example.
