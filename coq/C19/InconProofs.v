(** C19 -- proofs about the model of t2incon.transfer_from. *)
From Coq Require Import Ascii String List Bool Arith ZArith QArith Lia.
From PTBase Require Import Exn PyStr.
From P Require Import Lib Transfer Wf MapProofs.
Import ListNotations.
Close Scope Q_scope.

(** ** add_incon on fresh names appends *)
Lemma inc_set_fresh (i : incon) k v : ~ In k (map fst i) -> inc_set i k v = i ++ [(k, v)].
Proof.
  induction i as [|[k' v'] i IH]; intro N; [reflexivity|]. cbn [inc_set app].
  destruct (str_eqb_spec k k') as [E|NE]; [exfalso; apply N; left; symmetry; exact E|].
  rewrite IH; [reflexivity|]. intro I; apply N; right; exact I.
Qed.

Lemma fold_inc_set_nodup ps acc : NoDup (map fst (acc ++ ps)) ->
  fold_left (fun a kv => inc_set a (fst kv) (snd kv)) ps acc = acc ++ ps.
Proof.
  revert acc; induction ps as [|[k v] ps IH]; intros acc ND; [rewrite app_nil_r; reflexivity|].
  cbn [fold_left fst snd]. rewrite inc_set_fresh.
  - rewrite IH; rewrite <- app_assoc; [reflexivity|exact ND].
  - rewrite map_app in ND. cbn [map fst] in ND. apply NoDup_remove_2 in ND.
    intro I. apply ND. apply in_or_app. left; exact I.
Qed.

Lemma inc_of_pairs_nodup ps : NoDup (map fst ps) -> inc_of_pairs ps = ps.
Proof. intro ND. unfold inc_of_pairs. rewrite fold_inc_set_nodup; [reflexivity|exact ND]. Qed.

(** ** keyed mapM *)
Lemma mapM_keyed_inv {A V} (key : A -> str) (h : A -> res V) l ps :
  mapM (fun x => do v <- h x; Ok (key x, v)) l = Ok ps ->
  map fst ps = map key l /\ forall x, In x l -> exists v, h x = Ok v /\ In (key x, v) ps.
Proof.
  revert ps; induction l as [|a l IH]; intros ps H; cbn [mapM] in H.
  - inversion H; subst. split; [reflexivity|intros x []].
  - destruct (h a) as [v|e] eqn:Ha; cbn [bind] in H; [|discriminate].
    destruct (mapM _ l) as [r|e] eqn:Hl; cbn [bind] in H; [|discriminate].
    inversion H; subst. destruct (IH r eq_refl) as [F G]. split; [cbn [map fst]; rewrite F; reflexivity|].
    intros x [E|I]; [subst; exists v; split; [exact Ha|left; reflexivity]|].
    destruct (G x I) as [w [Hw Iw]]. exists w. split; [exact Hw|right; exact Iw].
Qed.

Lemma mapM_keyed_total {A V} (key : A -> str) (h : A -> res V) l :
  (forall x, In x l -> exists v, h x = Ok v) -> exists ps, mapM (fun x => do v <- h x; Ok (key x, v)) l = Ok ps.
Proof.
  induction l as [|a l IH]; intro H; [exists []; reflexivity|].
  destruct (H a (or_introl eq_refl)) as [v Hv]. destruct IH as [ps Hps]; [intros x I; apply H; right; exact I|].
  exists ((key a, v) :: ps). cbn [mapM]. rewrite Hv. cbn [bind]. rewrite Hps. reflexivity.
Qed.

(** ** element-wise sums *)
Definition qcol (k : nat) (vs : list (list Q)) : Q := fold_right (fun v a => (nth k v 0 + a)%Q) 0%Q vs.

Lemma vadd_spec a b r : vadd a b = Ok r ->
  length r = length a /\ length b = length a /\ forall k, (nth k r 0 == nth k a 0 + nth k b 0)%Q.
Proof.
  revert b r; induction a as [|x a IH]; intros b r H; destruct b as [|y b]; cbn [vadd] in H; try discriminate.
  - inversion H; subst. repeat split; auto. intro k. destruct k; cbn [nth]; ring.
  - destruct (vadd a b) as [r'|e] eqn:E; cbn [bind] in H; [|discriminate].
    assert (Er : r = Qred (x + y) :: r') by congruence. clear H. subst r.
    destruct (IH b r' E) as [L1 [L2 N]]. cbn [length]. repeat split; try congruence.
    intro k. destruct k as [|k]; [change (Qred (x + y) == x + y)%Q; apply Qred_correct|apply N].
Qed.

Lemma vsum_spec vs : forall acc s, vsum acc vs = Ok s ->
  length s = length acc /\ Forall (fun v => length v = length acc) vs /\
  forall k, (nth k s 0 == nth k acc 0 + qcol k vs)%Q.
Proof.
  induction vs as [|v vs IH]; intros acc s H; cbn [vsum] in H.
  - inversion H; subst. repeat split; auto. intro k. cbn [qcol fold_right]. ring.
  - destruct (vadd acc v) as [a|e] eqn:E; cbn [bind] in H; [|discriminate].
    destruct (vadd_spec _ _ _ E) as [L1 [L2 N]]. destruct (IH a s H) as [M1 [M2 M3]].
    split; [congruence|]. split.
    + constructor; [exact L2|]. eapply Forall_impl; [|exact M2]. cbn beta. intros w Hw. congruence.
    + intro k. rewrite M3, N. cbn [qcol fold_right]. fold (qcol k vs). ring.
Qed.

Lemma vadd_total a b : length b = length a -> exists r, vadd a b = Ok r /\ length r = length a.
Proof.
  revert b; induction a as [|x a IH]; intros b H; destruct b as [|y b]; cbn [length] in H; try discriminate.
  - exists []. split; reflexivity.
  - destruct (IH b) as [r [E L]]; [congruence|]. exists (Qred (x + y) :: r). cbn [vadd]. rewrite E. cbn [bind length].
    split; [reflexivity|congruence].
Qed.
Lemma vsum_total vs : forall acc, Forall (fun v => length v = length acc) vs -> exists s, vsum acc vs = Ok s.
Proof.
  induction vs as [|v vs IH]; intros acc H; cbn [vsum]; [eauto|]. inversion H as [|? ? Hv Hvs]; subst.
  destruct (vadd_total acc v Hv) as [r [E L]]. rewrite E. cbn [bind]. apply IH.
  eapply Forall_impl; [|exact Hvs]. cbn beta. intros w Hw. congruence.
Qed.

Lemma Forall2_impl' {A B} (R R' : A -> B -> Prop) l ys : (forall a b, R a b -> R' a b) -> Forall2 R l ys -> Forall2 R' l ys.
Proof. intros H F. induction F; constructor; auto. Qed.

Section Incon.
Variable nearest : pt -> list pt -> nat.
Hypothesis Hn : nearest_spec nearest.

Definition atmblk (g : geom) : str := block_name g (l0name g) (atmcol g).
Definition colblk (g : geom) (c : column) : str := block_name g (l0name g) (cname c).

(** what the atmosphere blocks of the target hold, for the nine (target, source) arrangements *)
Definition atm_spec (sinc : incon) (src geo : geom) (cm : dict) (new : incon) : Prop :=
  match gatm geo, gatm src with
  | Atm0, Atm0 => exists st, inc_first sinc = Ok st /\ dget (atmblk geo) new = Ok st
  | Atm0, Atm1 =>
      exists b0 vs s, inc_first sinc = Ok b0 /\
        Forall2 (fun col v => exists b, dget (colblk src col) sinc = Ok b /\ bvar b = v) (gcols src) vs /\
        length s = length (bvar b0) /\
        (forall k, (nth k s 0 == qcol k vs)%Q) /\
        dget (atmblk geo) new = Ok (mkB (map (fun x => (x / qofnat (length (gcols src)))%Q) s) None None)
  | Atm0, Atm2 => dget (atmblk geo) new = Ok default_atm
  | Atm1, Atm0 => exists st, inc_first sinc = Ok st /\ forall col, In col (gcols geo) -> dget (colblk geo col) new = Ok st
  | Atm1, Atm1 => forall col, In col (gcols geo) -> exists mc st,
        dget (cname col) cm = Ok mc /\ dget (block_name src (l0name src) mc) sinc = Ok st /\
        dget (colblk geo col) new = Ok st
  | Atm1, Atm2 => forall col, In col (gcols geo) -> dget (colblk geo col) new = Ok default_atm
  | Atm2, _ => True
  end.

Lemma nth_zeros {A} (l : list A) k : (nth k (map (fun _ => 0%Q) l) 0 == 0)%Q.
Proof. revert k; induction l as [|a l IH]; intro k; destruct k; cbn [map nth]; try reflexivity. apply IH. Qed.

Lemma mapM_Forall2 {A B} (f : A -> res B) l ys : mapM f l = Ok ys -> Forall2 (fun x y => f x = Ok y) l ys.
Proof. apply mapM_Ok_inv. Qed.

(** atmosphere pairs: keys are the atmosphere blocks of the target; values per arrangement *)
Lemma atm_pairs_spec sinc src geo cm a : wf geo ->
  atm_pairs sinc src geo cm = Ok a ->
  map fst a = atm_blocks geo /\ forall rest, NoDup (map fst (a ++ rest)) -> atm_spec sinc src geo cm (a ++ rest).
Proof.
  intros W H. unfold atm_pairs in H. unfold atm_spec, atm_blocks.
  destruct (gatm geo) eqn:Eg.
  - fold (atmblk geo) in *. destruct (gatm src) eqn:Es.
    + destruct (inc_first sinc) as [b|e] eqn:E; cbn [bind] in H; [|discriminate]. inversion H; subst.
      split; [reflexivity|]. intros rest ND. exists b. split; [reflexivity|]. cbn [app dget]. rewrite str_eqb_refl. reflexivity.
    + destruct (inc_first sinc) as [b0|e] eqn:E; cbn [bind] in H; [|discriminate].
      destruct (mapM _ (gcols src)) as [vs|e] eqn:Ev; cbn [bind] in H; [|discriminate].
      destruct (vsum _ vs) as [s|e] eqn:Esum; cbn [bind] in H; [|discriminate]. inversion H; subst.
      split; [reflexivity|]. intros rest ND. exists b0, vs, s. split; [reflexivity|].
      destruct (vsum_spec _ _ _ Esum) as [L [_ N]]. rewrite map_length in L.
      split.
      * apply mapM_Forall2 in Ev. eapply Forall2_impl'; [|exact Ev]. cbn beta. intros col v Hv. unfold colblk.
        destruct (dget (block_name src (l0name src) (cname col)) sinc) as [b|e]; cbn [bind] in Hv; [|discriminate].
        inversion Hv; subst. exists b. split; reflexivity.
      * split; [exact L|]. split; [intro k; rewrite N, nth_zeros; ring|].
        cbn [app dget]. rewrite str_eqb_refl. reflexivity.
    + inversion H; subst. split; [reflexivity|]. intros rest ND. cbn [app dget]. rewrite str_eqb_refl. reflexivity.
  - destruct (gatm src) eqn:Es.
    + change (fun col => do b <- inc_first sinc; Ok (block_name geo (l0name geo) (cname col), b))
        with (fun col => do b <- (fun _ : column => inc_first sinc) col; Ok (colblk geo col, b)) in H.
      destruct (mapM_keyed_inv _ _ _ _ H) as [F G]. split; [exact F|]. intros rest ND.
      destruct (gcols geo) as [|c0 cs] eqn:Ec; [exfalso; apply (cols_ne geo W Ec)|]. rewrite <- Ec in *.
      destruct (G c0) as [st [Hst _]]; [rewrite Ec; left; reflexivity|]. exists st. split; [exact Hst|].
      intros col Ic. destruct (G col Ic) as [st' [Hst' I']]. rewrite Hst in Hst'. inversion Hst'; subst st'.
      apply dget_in_nodup; [|exact I']. rewrite map_app in ND. apply NoDup_app_l in ND. exact ND.
    + assert (H' : mapM (fun col => do b <- (fun col => do mc <- dget (cname col) cm; dget (block_name src (l0name src) mc) sinc) col;
                          Ok (colblk geo col, b)) (gcols geo) = Ok a).
      { rewrite <- H. clear. induction (gcols geo) as [|c l IH]; [reflexivity|]. cbn [mapM]. rewrite IH.
        destruct (dget (cname c) cm); cbn [bind]; reflexivity. }
      destruct (mapM_keyed_inv _ _ _ _ H') as [F G]. split; [exact F|]. intros rest ND col Ic.
      destruct (G col Ic) as [st [Hst I']].
      destruct (dget (cname col) cm) as [mc|e] eqn:Emc; cbn [bind] in Hst; [|discriminate].
      exists mc, st. split; [reflexivity|]. split; [exact Hst|].
      apply dget_in_nodup; [|exact I']. rewrite map_app in ND. apply NoDup_app_l in ND. exact ND.
    + inversion H; subst. split; [rewrite map_map; reflexivity|]. intros rest ND col Ic.
      apply dget_in_nodup.
      * rewrite map_app in ND. apply NoDup_app_l in ND. exact ND.
      * apply in_map_iff. exists col. split; [reflexivity|exact Ic].
  - inversion H; subst. split; [reflexivity|]. intros; exact I.
Qed.

(** ** the specification of a successful transfer *)
Lemma incon_transfer_spec_l maps sinc src geo new : wf src -> wf geo ->
  incon_transfer nearest maps sinc src geo = Ok new ->
  exists m cm,
    match maps with Some mc => mc = (m, cm) | None => block_mapping nearest src geo = Ok (m, cm) end /\
    map fst new = block_name_list geo /\
    (forall b, In b (ug_blocks geo) -> exists sb st, dget b m = Ok sb /\ dget sb sinc = Ok st /\ dget b new = Ok st) /\
    atm_spec sinc src geo cm new.
Proof.
  intros W W' H. unfold incon_transfer in H.
  destruct (match maps with Some mc => Ok mc | None => block_mapping nearest src geo end) as [[m cm]|e] eqn:Em;
    cbn [bind] in H; [|discriminate].
  cbn [fst snd] in H.
  destruct (atm_pairs sinc src geo cm) as [a|e] eqn:Ea; cbn [bind] in H; [|discriminate].
  destruct (ug_pairs sinc geo m) as [u|e] eqn:Eu; cbn [bind] in H; [|discriminate].
  inversion H; subst new; clear H.
  exists m, cm. split; [destruct maps; congruence|].
  destruct (atm_pairs_spec _ _ _ _ _ W' Ea) as [Fa Sa].
  unfold ug_pairs in Eu. rewrite (skipn_atm geo W') in Eu.
  assert (Eu' : mapM (fun blk => do b <- (fun blk => do sb <- dget blk m; dget sb sinc) blk; Ok ((fun x : str => x) blk, b))
                     (ug_blocks geo) = Ok u).
  { rewrite <- Eu. clear. induction (ug_blocks geo) as [|c l IH]; [reflexivity|]. cbn [mapM]. rewrite IH.
    destruct (dget c m); cbn [bind]; reflexivity. }
  destruct (mapM_keyed_inv _ _ _ _ Eu') as [Fu Gu]. rewrite map_id in Fu.
  assert (K : map fst (a ++ u) = block_name_list geo).
  { rewrite map_app, Fa, Fu. symmetry. apply block_name_list_eq; exact W'. }
  assert (ND : NoDup (map fst (a ++ u))) by (rewrite K; apply block_name_list_nodup; exact W').
  rewrite (inc_of_pairs_nodup _ ND). split; [exact K|]. split.
  - intros b Ib. destruct (Gu b Ib) as [st [Hst Ist]].
    destruct (dget b m) as [sb|e] eqn:Esb; cbn [bind] in Hst; [|discriminate].
    exists sb, st. split; [reflexivity|]. split; [exact Hst|].
    apply dget_nodup_in; [exact ND|]. apply in_or_app. right; exact Ist.
  - apply Sa. exact ND.
Qed.

(** ** totality with the default (computed) mappings *)
Lemma ug_nonempty g : wf g -> exists b, In b (ug_blocks g).
Proof.
  intro W. destruct (gcols g) as [|c cs] eqn:Ec; [exfalso; apply (cols_ne g W Ec)|].
  assert (Ic : In c (gcols g)) by (rewrite Ec; left; reflexivity).
  destruct (surface_layer_first g c W Ic) as [sl [_ F]]. destruct (first_below_ground_in _ _ _ F) as [A B].
  exists (block_name g (lname sl) (cname c)). apply in_ug; assumption.
Qed.

Definition covers (sinc : incon) (g : geom) : Prop := forall b, In b (block_name_list g) -> exists st, dget b sinc = Ok st.

Lemma covers_first sinc g : wf g -> covers sinc g -> exists st, inc_first sinc = Ok st.
Proof.
  intros W C. destruct (ug_nonempty g W) as [b Ib]. destruct (C b) as [st Hst].
  { rewrite (block_name_list_eq g W). apply in_or_app. right; exact Ib. }
  destruct sinc as [|[k v] r]; [discriminate|]. exists v. reflexivity.
Qed.

Definition uniform (sinc : incon) : Prop :=
  exists n, forall k st, In (k, st) sinc -> length (bvar st) = n.

Lemma incon_transfer_total_l sinc src geo : wf src -> wf geo -> covers sinc src -> uniform sinc ->
  exists new, incon_transfer nearest None sinc src geo = Ok new.
Proof.
  intros W W' C [n U]. unfold incon_transfer.
  destruct (block_mapping_ok nearest Hn src geo W W') as [m Hm]. rewrite Hm. cbn [bind fst snd].
  destruct (block_mapping_inv nearest Hn src geo m _ W W' Hm) as [_ [F G]].
  destruct (covers_first sinc src W C) as [st0 H0].
  assert (CA : forall b, In b (atm_blocks src) -> exists st, dget b sinc = Ok st).
  { intros b I. apply C. rewrite (block_name_list_eq src W). apply in_or_app; left; exact I. }
  assert (CU : forall b, In b (ug_blocks src) -> exists st, dget b sinc = Ok st).
  { intros b I. apply C. rewrite (block_name_list_eq src W). apply in_or_app; right; exact I. }
  assert (A : exists a, atm_pairs sinc src geo (CM nearest src geo) = Ok a).
  { unfold atm_pairs. destruct (gatm geo) eqn:Eg.
    - destruct (gatm src) eqn:Es.
      + rewrite H0. cbn [bind]. eauto.
      + rewrite H0. cbn [bind].
        assert (L0 : length (bvar st0) = n).
        { destruct sinc as [|[k v] r]; [discriminate|]. cbn [inc_first] in H0. inversion H0; subst v.
          apply (U k st0). left; reflexivity. }
        assert (T : forall col, In col (gcols src) -> exists y,
                   (fun col => do b <- dget (block_name src (l0name src) (cname col)) sinc; Ok (bvar b)) col = Ok y).
        { intros col Ic. cbn beta. destruct (CA (block_name src (l0name src) (cname col))) as [st Hst].
          - unfold atm_blocks. rewrite Es. apply in_map_iff. exists col. split; [reflexivity|exact Ic].
          - rewrite Hst. cbn [bind]. eauto. }
        rewrite (mapM_total_fn _ [] _ T). cbn [bind].
        match goal with |- exists a, bind (vsum ?acc ?vs) _ = _ => destruct (vsum_total vs acc) as [s Hs] end.
        { rewrite map_length. apply Forall_forall. intros v Iv. apply in_map_iff in Iv as [col [Ev Ic]].
          destruct (CA (block_name src (l0name src) (cname col))) as [st Hst].
          - unfold atm_blocks. rewrite Es. apply in_map_iff. exists col. split; [reflexivity|exact Ic].
          - rewrite Hst in Ev. cbn [bind unres] in Ev. subst v. rewrite L0. apply (U _ _ (dget_Ok_in _ _ _ Hst)). }
        rewrite Hs. cbn [bind]. eauto.
      + eauto.
    - destruct (gatm src) eqn:Es.
      + apply (mapM_keyed_total (fun col => block_name geo (l0name geo) (cname col)) (fun _ => inc_first sinc)). intros; eauto.
      + assert (T : forall col, In col (gcols geo) -> exists v,
                   (fun col => do mc <- dget (cname col) (CM nearest src geo); dget (block_name src (l0name src) mc) sinc) col = Ok v).
        { intros col Ic. cbn beta. rewrite (CM_col nearest src geo col W' Ic). cbn [bind]. apply CA.
          unfold atm_blocks. rewrite Es. apply in_map_iff. exists (near_col nearest src col). split; [reflexivity|].
          apply (closest_col_ok nearest Hn src col (cols_ne src W)). }
        destruct (mapM_keyed_total (fun col => block_name geo (l0name geo) (cname col)) _ _ T) as [ps Hps].
        exists ps. rewrite <- Hps. clear. induction (gcols geo) as [|c l IH]; [reflexivity|]. cbn [mapM]. rewrite IH.
        destruct (dget (cname c) (CM nearest src geo)); cbn [bind]; reflexivity.
      + eauto.
    - eauto. }
  destruct A as [a Ha]. rewrite Ha. cbn [bind].
  assert (U' : exists u, ug_pairs sinc geo m = Ok u).
  { unfold ug_pairs. rewrite (skipn_atm geo W').
    assert (T : forall b, In b (ug_blocks geo) -> exists v, (fun blk => do sb <- dget blk m; dget sb sinc) b = Ok v).
    { intros b Ib. cbn beta. destruct (G b) as [v [Hv Dv]].
      { rewrite (block_name_list_eq geo W'). apply in_or_app; right; exact Ib. }
      rewrite Dv. cbn [bind]. apply CU.
      apply ug_blocks_in in Ib as [lay [c [Il [Ic [Hb E]]]]]. subst b.
      rewrite (map_block_ug nearest Hn src geo lay c W W' Il Ic) in Hv. inversion Hv; subst v.
      destruct (closest_col_ok nearest Hn src c (cols_ne src W)) as [_ [Isc _]].
      destruct (src_layer_block src _ _ W Isc (near_lay_in _ lay (tl_layers_ne src W))) as [P [Q _]].
      apply in_ug; assumption. }
    destruct (mapM_keyed_total (fun x : str => x) _ _ T) as [ps Hps].
    exists ps. rewrite <- Hps. clear. induction (ug_blocks geo) as [|c l IH]; [reflexivity|]. cbn [mapM]. rewrite IH.
    destruct (dget c m); cbn [bind]; reflexivity. }
  destruct U' as [u Hu]. rewrite Hu. cbn [bind]. eauto.
Qed.

End Incon.

(** the source object is an input of the functional model: the transition hands it back untouched *)
Lemma incon_transfer_st_source nearest maps st src geo st' :
  incon_transfer_st nearest maps st src geo = Ok st' -> fst st' = fst st.
Proof.
  unfold incon_transfer_st. destruct (incon_transfer nearest maps (fst st) src geo); cbn [bind]; [|discriminate].
  intro H; inversion H; reflexivity.
Qed.
