(** C19 -- proofs about the model of t2data.transfer_from (DataTransfer.v). *)
From Coq Require Import Ascii String List Bool Arith ZArith QArith Lia.
From PTBase Require Import Exn PyStr.
From P Require Import Lib Transfer Generators Wf MapProofs MapThms InconProofs GenProofs GenSpec DataTransfer.
Import ListNotations.
Close Scope Q_scope.

(** ** dict assignment on fresh keys appends *)
Lemma aset_fresh {V} (d : list (str * V)) k v : ~ In k (map fst d) -> aset d k v = d ++ [(k, v)].
Proof.
  induction d as [|[k' v'] d IH]; intro N; [reflexivity|]. cbn [aset app].
  destruct (str_eqb_spec k k') as [E|NE]; [exfalso; apply N; left; symmetry; exact E|].
  rewrite IH; [reflexivity|]. intro I; apply N; right; exact I.
Qed.
Lemma fold_aset_nodup {V} (ps acc : list (str * V)) : NoDup (map fst (acc ++ ps)) ->
  fold_left (fun a kv => aset a (fst kv) (snd kv)) ps acc = acc ++ ps.
Proof.
  revert acc; induction ps as [|[k v] ps IH]; intros acc ND; [rewrite app_nil_r; reflexivity|].
  cbn [fold_left fst snd]. rewrite aset_fresh.
  - rewrite IH; rewrite <- app_assoc; [reflexivity|exact ND].
  - rewrite map_app in ND. cbn [map fst] in ND. apply NoDup_remove_2 in ND.
    intro I. apply ND. apply in_or_app. left; exact I.
Qed.
Lemma dict_of_nodup {V} (ps : list (str * V)) : NoDup (map fst ps) -> dict_of ps = ps.
Proof. intro ND. unfold dict_of. rewrite fold_aset_nodup; [reflexivity|exact ND]. Qed.

Lemma dget_raise_keyerror {V} k (d : list (str * V)) e : dget k d = Raise e -> e = KeyError /\ ~ In k (map fst d).
Proof.
  induction d as [|[k' v] d IH]; cbn [dget]; intro H; [inversion H; split; [reflexivity|intros []]|].
  destruct (str_eqb_spec k k') as [E|N]; [discriminate|]. destruct (IH H) as [A B]. split; [exact A|].
  intros [I|I]; [apply N; symmetry; exact I|exact (B I)].
Qed.

Lemma NoDup_map_filter {A B} (f : A -> B) (p : A -> bool) l : NoDup (map f l) -> NoDup (map f (filter p l)).
Proof.
  induction l as [|a l IH]; intro H; [constructor|]. cbn [map] in H. inversion H as [|? ? NI ND]; subst.
  cbn [filter]. destruct (p a); [|apply IH; exact ND]. cbn [map]. constructor; [|apply IH; exact ND].
  intro I. apply NI. apply in_map_iff in I as [x [E Ix]]. apply filter_In in Ix as [Ix _].
  rewrite <- E. apply in_map. exact Ix.
Qed.

(** ** the target blocks mapped to one source block *)
Lemma mapped_to_spec mapping dgrid sb r : mapped_to mapping dgrid sb = Ok r -> r = filter (blk_follows mapping sb) dgrid.
Proof.
  unfold mapped_to. intro H. destruct (filterM_Ok _ _ _ H) as [E _]. rewrite E. apply filter_ext.
  intro bv. unfold blk_follows. destruct (dget (fst bv) mapping); reflexivity.
Qed.
Definition maps_all (mapping : dict) (dgrid : list (str * Q)) : Prop :=
  forall bv, In bv dgrid -> exists sb, dget (fst bv) mapping = Ok sb.
Lemma mapped_to_total mapping dgrid sb : maps_all mapping dgrid ->
  mapped_to mapping dgrid sb = Ok (filter (blk_follows mapping sb) dgrid).
Proof.
  intro T. unfold mapped_to. apply filterM_pure. intros bv I. destruct (T bv I) as [b E].
  unfold blk_follows. rewrite E. reflexivity.
Qed.

(** ** transfer_rocktypes_from *)
Lemma transfer_rocktypes_spec src dgrid mapping rb :
  transfer_rocktypes src dgrid mapping = Ok rb ->
  map fst rb = map fst dgrid /\ map (fun b => snd (snd b)) rb = map snd dgrid /\
  Forall2 (fun bv b => exists sb sv, dget (fst bv) mapping = Ok sb /\ dget sb (dblocks src) = Ok (fst (snd b), sv) /\
                                      In (fst (snd b)) (drocks src) /\ b = (fst bv, (fst (snd b), snd bv))) dgrid rb.
Proof.
  unfold transfer_rocktypes. intro H. apply mapM_Ok_inv in H.
  assert (K : Forall2 (fun bv b => exists sb sv, dget (fst bv) mapping = Ok sb /\ dget sb (dblocks src) = Ok (fst (snd b), sv) /\
                                      In (fst (snd b)) (drocks src) /\ b = (fst bv, (fst (snd b), snd bv))) dgrid rb).
  { eapply Forall2_impl'; [|exact H]. cbn beta. clear. intros bv b Hb.
    destruct (dget (fst bv) mapping) as [sb|e] eqn:Em; cbn [bind] in Hb; [|discriminate].
    destruct (dget sb (dblocks src)) as [[rk sv]|e] eqn:Es; cbn [bind fst] in Hb; [|discriminate].
    destruct (memb rk (drocks src)) eqn:M; [|discriminate]. inversion Hb; subst b. cbn [fst snd].
    exists sb, sv. repeat split; auto. apply memb_In; exact M. }
  split; [|split; [|exact K]]; clear H; induction K as [|bv b l r [sb [sv [_ [_ [_ E]]]]] K IH]; cbn [map]; try reflexivity;
    rewrite IH, E; reflexivity.
Qed.

(** every target block has the rock type of its mapped source block, and that rock type is registered *)
Lemma transfer_rocktypes_blocks src dgrid mapping rb : NoDup (map fst dgrid) ->
  transfer_rocktypes src dgrid mapping = Ok rb ->
  forall b v, In (b, v) dgrid -> exists sb rk sv, dget b mapping = Ok sb /\ dget sb (dblocks src) = Ok (rk, sv) /\
                                                 In rk (drocks src) /\ dget b rb = Ok (rk, v).
Proof.
  intros ND H b v I. destruct (transfer_rocktypes_spec _ _ _ _ H) as [Fk [_ F]].
  destruct (Forall2_in_l _ _ _ (b, v) F I) as [blk [Ib [sb [sv [Em [Es [Ir Eb]]]]]]]. cbn [fst snd] in *.
  exists sb, (fst (snd blk)), sv. repeat split; auto.
  apply dget_nodup_in; [rewrite Fk; exact ND|]. rewrite Eb in Ib. exact Ib.
Qed.

Definition maps_into_rocks (src : t2d) (mapping : dict) (dgrid : list (str * Q)) : Prop :=
  forall bv, In bv dgrid -> exists sb sblk, dget (fst bv) mapping = Ok sb /\ dget sb (dblocks src) = Ok sblk /\
                                            In (fst sblk) (drocks src).
Lemma transfer_rocktypes_total src dgrid mapping : maps_into_rocks src mapping dgrid ->
  exists rb, transfer_rocktypes src dgrid mapping = Ok rb.
Proof.
  intro T. unfold transfer_rocktypes. eexists. apply (mapM_total_fn _ ([], ([], 0%Q))).
  intros bv I. destruct (T bv I) as [sb [sblk [Em [Es Ir]]]]. rewrite Em. cbn [bind]. rewrite Es. cbn [bind].
  rewrite (proj2 (memb_In _ _) Ir). eauto.
Qed.

(** ** print_block *)
Lemma transfer_print_spec src dgrid mapping pb : transfer_print src dgrid mapping = Ok pb ->
  pb = match dprint src with
       | None => None
       | Some p => match filter (blk_follows mapping p) dgrid with bv :: _ => Some (fst bv) | [] => None end
       end.
Proof.
  unfold transfer_print. destruct (dprint src) as [p|]; intro H; [|inversion H; reflexivity].
  destruct (mapped_to mapping dgrid p) as [mb|e] eqn:E; cbn [bind] in H; [|discriminate].
  rewrite (mapped_to_spec _ _ _ _ E) in H. inversion H; reflexivity.
Qed.

(** ** the in-file initial conditions *)
Lemma transfer_incon_dict_spec src dgrid mapping ic :
  NoDup (map fst (dincon src)) -> NoDup (map fst dgrid) ->
  transfer_incon_dict src dgrid mapping = Ok ic ->
  forall bv sb, In bv dgrid -> dget (fst bv) mapping = Ok sb -> dget (fst bv) ic = dget sb (dincon src).
Proof.
  intros NDk NDg H. unfold transfer_incon_dict in H.
  destruct (mapM _ (dincon src)) as [per|e] eqn:E; cbn [bind] in H; [|discriminate]. inversion H; subst ic; clear H.
  set (F := fun kv : str * nat => map (fun bv : str * Q => (fst bv, snd kv)) (filter (blk_follows mapping (fst kv)) dgrid)).
  assert (Ep : per = map F (dincon src)).
  { apply mapM_Ok_inv in E. clear NDk. induction E as [|kv p l r Hp E IH]; [reflexivity|]. cbn [map]. rewrite <- IH. f_equal.
    destruct (mapped_to mapping dgrid (fst kv)) as [mb|e] eqn:Em; cbn [bind] in Hp; [|discriminate].
    rewrite (mapped_to_spec _ _ _ _ Em) in Hp. inversion Hp; reflexivity. }
  assert (Ec : concat per = flat_map F (dincon src)) by (rewrite Ep, flat_map_concat_map; reflexivity).
  assert (InC : forall b t, In (b, t) (flat_map F (dincon src)) <->
                            exists k bv, In (k, t) (dincon src) /\ In bv dgrid /\ fst bv = b /\ blk_follows mapping k bv = true).
  { intros b t. rewrite in_flat_map. split.
    - intros [[k t'] [Ik Ib]]. unfold F in Ib. cbn [fst snd] in Ib. apply in_map_iff in Ib as [bv [Eb Ibv]].
      apply filter_In in Ibv as [Ibv Fb]. inversion Eb; subst. exists k, bv. auto.
    - intros [k [bv [Ik [Ibv [Eb Fb]]]]]. exists (k, t). split; [exact Ik|]. unfold F. cbn [fst snd].
      apply in_map_iff. exists bv. split; [rewrite Eb; reflexivity|]. apply filter_In. auto. }
  assert (Follow : forall k bv, blk_follows mapping k bv = true <-> dget (fst bv) mapping = Ok k).
  { intros k bv. unfold blk_follows. destruct (dget (fst bv) mapping) as [b|e]; split; intro Hx; try discriminate.
    - apply str_eqb_eq in Hx. congruence.
    - inversion Hx. apply str_eqb_refl. }
  assert (ND : NoDup (map fst (flat_map F (dincon src)))).
  { assert (Em : map fst (flat_map F (dincon src)) =
                 flat_map (fun kv => map fst (filter (blk_follows mapping (fst kv)) dgrid)) (dincon src)).
    { clear. induction (dincon src) as [|kv l IH]; [reflexivity|]. cbn [flat_map]. rewrite map_app, IH. f_equal.
      unfold F. rewrite map_map. reflexivity. }
    rewrite Em. apply NoDup_flat_map.
    - eapply NoDup_map_of_inj; exact NDk.
    - intros kv _. apply NoDup_map_filter. exact NDg.
    - intros x y b Ix Iy Ibx Iby.
      apply in_map_iff in Ibx as [bv [Eb Ibv]]. apply filter_In in Ibv as [Ibv Fx].
      apply in_map_iff in Iby as [bv' [Eb' Ibv']]. apply filter_In in Ibv' as [Ibv' Fy].
      apply Follow in Fx. apply Follow in Fy. rewrite Eb in Fx. rewrite Eb' in Fy. rewrite Fx in Fy. inversion Fy.
      eapply NoDup_map_inj; eauto. }
  rewrite Ec, (dict_of_nodup _ ND).
  intros bv sb Ibv Em. destruct (dget sb (dincon src)) as [t|e] eqn:Ed.
  - apply dget_nodup_in; [exact ND|]. apply InC. exists sb, bv. repeat split; auto.
    + apply dget_Ok_in; exact Ed.
    + apply Follow; exact Em.
  - destruct (dget_raise_keyerror _ _ _ Ed) as [Ee Nk]. subst e. apply dget_notin.
    intro I. apply in_map_iff in I as [[b t] [Eb Ib]]. cbn [fst] in Eb. subst b.
    apply InC in Ib as [k [bv' [Ik [Ibv' [Ef Fb]]]]]. apply Follow in Fb. rewrite Ef, Em in Fb. inversion Fb; subst k.
    apply Nk. apply in_map_iff. exists (sb, t). split; [reflexivity|exact Ik].
Qed.

Lemma transfer_incon_dict_total src dgrid mapping : maps_all mapping dgrid ->
  exists ic, transfer_incon_dict src dgrid mapping = Ok ic.
Proof.
  intro T. unfold transfer_incon_dict.
  rewrite (mapM_ok_map _ (fun kv => map (fun bv : str * Q => (fst bv, snd kv)) (filter (blk_follows mapping (fst kv)) dgrid))).
  - cbn [bind]. eauto.
  - intros kv _. rewrite (mapped_to_total _ _ _ T). reflexivity.
Qed.

(** ** the whole transfer *)
Section Whole.
Variable nearest : pt -> list pt -> nat.
Hypothesis Hn : nearest_spec nearest.

Lemma data_transfer_inv src sourcegeo geo dgrid incols tops bots rename preserve sincfile d f :
  data_transfer nearest src sourcegeo geo dgrid incols tops bots rename preserve sincfile = Ok (d, f) ->
  exists m cm, block_mapping nearest sourcegeo geo = Ok (m, cm) /\
    transfer_print src dgrid m = Ok (dprint d) /\
    transfer_rocktypes src dgrid m = Ok (dblocks d) /\
    drocks d = drocks src /\ dtag d = dtag src /\
    transfer_generators sourcegeo geo tops bots incols (svols_of src) dgrid m cm rename preserve (dgens src) = Ok (dgens d) /\
    transfer_incon_dict src dgrid m = Ok (dincon d) /\
    match sincfile with
    | None => f = None
    | Some si => exists i, incon_transfer nearest (Some (m, cm)) si sourcegeo geo = Ok i /\ f = Some i
    end.
Proof.
  unfold data_transfer. intro H.
  destruct (block_mapping nearest sourcegeo geo) as [[m cm]|e] eqn:Em; cbn [bind fst snd] in H; [|discriminate].
  destruct (transfer_print src dgrid m) as [pb|e] eqn:Ep; cbn [bind] in H; [|discriminate].
  destruct (transfer_rocktypes src dgrid m) as [rb|e] eqn:Er; cbn [bind] in H; [|discriminate].
  destruct (transfer_generators _ _ _ _ _ _ _ _ _ _ _ _) as [gs|e] eqn:Eg; cbn [bind] in H; [|discriminate].
  destruct (transfer_incon_dict src dgrid m) as [ic|e] eqn:Ei; cbn [bind] in H; [|discriminate].
  exists m, cm. split; [reflexivity|].
  destruct sincfile as [si|].
  - destruct (incon_transfer nearest (Some (m, cm)) si sourcegeo geo) as [i|e] eqn:Ef; cbn [bind] in H; [|discriminate].
    inversion H; subst d f. cbn [dprint dblocks drocks dtag dgens dincon]. repeat split; eauto.
  - cbn [bind] in H. inversion H; subst d f. cbn [dprint dblocks drocks dtag dgens dincon]. repeat split; eauto.
Qed.

(** the mapping of a pair of well-formed geometries sends every block of the target grid to a block of the
    source grid, provided the target has no atmosphere blocks or the source has some *)
Lemma block_mapping_into_source sourcegeo geo m cm : wf sourcegeo -> wf geo ->
  (gatm sourcegeo <> Atm2 \/ gatm geo = Atm2) ->
  block_mapping nearest sourcegeo geo = Ok (m, cm) ->
  forall b, In b (block_name_list geo) -> exists sb, dget b m = Ok sb /\ In sb (block_name_list sourcegeo).
Proof.
  intros W W' A Hm b Ib.
  destruct (block_mapping_total_l nearest Hn sourcegeo geo W W') as [m' [cm' [Hm' [_ [U At]]]]].
  rewrite Hm in Hm'. inversion Hm'; subst m' cm'.
  rewrite (block_name_list_eq geo W') in Ib. rewrite (block_name_list_eq sourcegeo W).
  apply in_app_or in Ib as [Ib|Ib].
  - destruct A as [A|A].
    + destruct (At A b Ib) as [sb [D I]]. exists sb. split; [exact D|apply in_or_app; left; exact I].
    + unfold atm_blocks in Ib. rewrite A in Ib. destruct Ib.
  - destruct (U b Ib) as [sb [D I]]. exists sb. split; [exact D|apply in_or_app; right; exact I].
Qed.

(** rock types through the whole transfer: the rock type list is the source's (so every rock type is
    registered exactly as often as in the source), and every block of the target grid has the rock type of
    its mapped source block *)
Lemma data_transfer_rocktypes src sourcegeo geo dgrid incols tops bots rename preserve sincfile d f :
  NoDup (map fst dgrid) ->
  data_transfer nearest src sourcegeo geo dgrid incols tops bots rename preserve sincfile = Ok (d, f) ->
  exists m cm, block_mapping nearest sourcegeo geo = Ok (m, cm) /\ drocks d = drocks src /\
    map fst (dblocks d) = map fst dgrid /\
    forall b v, In (b, v) dgrid -> exists sb rk sv, dget b m = Ok sb /\ dget sb (dblocks src) = Ok (rk, sv) /\
                                                    In rk (drocks d) /\ dget b (dblocks d) = Ok (rk, v).
Proof.
  intros ND H. destruct (data_transfer_inv _ _ _ _ _ _ _ _ _ _ _ _ H) as [m [cm [Hm [_ [Hr [Er _]]]]]].
  exists m, cm. split; [exact Hm|]. split; [exact Er|].
  split; [apply (transfer_rocktypes_spec _ _ _ _ Hr)|]. rewrite Er.
  apply (transfer_rocktypes_blocks _ _ _ _ ND Hr).
Qed.

(** totality of everything but the generator step (whose name formation can raise, see
    transfer_col_gen_convention3 and block_name_r) *)
Lemma data_transfer_total_l src sourcegeo geo dgrid incols tops bots rename preserve :
  wf sourcegeo -> wf geo -> (gatm sourcegeo <> Atm2 \/ gatm geo = Atm2) ->
  map fst dgrid = block_name_list geo ->
  (forall sb, In sb (block_name_list sourcegeo) -> exists sblk, dget sb (dblocks src) = Ok sblk /\ In (fst sblk) (drocks src)) ->
  (forall m cm, block_mapping nearest sourcegeo geo = Ok (m, cm) ->
     exists gs, transfer_generators sourcegeo geo tops bots incols (svols_of src) dgrid m cm rename preserve (dgens src) = Ok gs) ->
  exists d, data_transfer nearest src sourcegeo geo dgrid incols tops bots rename preserve None = Ok (d, None).
Proof.
  intros W W' A Hg Hs HG. unfold data_transfer.
  destruct (block_mapping_ok nearest Hn sourcegeo geo W W') as [m Hm]. rewrite Hm. cbn [bind fst snd].
  assert (MI : maps_into_rocks src m dgrid).
  { intros bv I. destruct (block_mapping_into_source _ _ _ _ W W' A Hm (fst bv)) as [sb [D Isb]].
    - rewrite <- Hg. apply in_map. exact I.
    - destruct (Hs sb Isb) as [sblk [E R]]. exists sb, sblk. auto. }
  assert (MA : maps_all m dgrid) by (intros bv I; destruct (MI bv I) as [sb [_ [E _]]]; eauto).
  assert (P : exists pb, transfer_print src dgrid m = Ok pb).
  { unfold transfer_print. destruct (dprint src) as [p|]; [|eauto]. rewrite (mapped_to_total _ _ _ MA). cbn [bind]. eauto. }
  destruct P as [pb Ep]. rewrite Ep. cbn [bind].
  destruct (transfer_rocktypes_total _ _ _ MI) as [rb Er]. rewrite Er. cbn [bind].
  destruct (HG _ _ Hm) as [gs Eg]. rewrite Eg. cbn [bind].
  destruct (transfer_incon_dict_total src _ _ MA) as [ic Ei]. rewrite Ei. cbn [bind]. eauto.
Qed.

End Whole.
