(** C19 -- model of t2data.transfer_from as a whole (t2data.py): block mapping, print_block,
    transfer_rocktypes_from, transfer_generators_from, the in-file initial conditions dict and the
    optional initial-conditions file.

    A t2data object is abstracted to what the transfer reads or writes: the grid's blocks (name, rock
    type name, volume) in blocklist order, the rock type list (names; [grid.rocktype] is the dict with
    the same keys), parameter['print_block'], the generator list, the [incon] dict (block name ->
    opaque value) and one opaque tag for every attribute that is copied as it is (simulator,
    parameter, multi, start, noversion, relative_permeability, capillarity, lineq, solver, diffusion,
    selection, output_times, indom).  The target grid [t2grid().fromgeo(geo)] is an input: its blocks
    with their volumes, in grid order ([dgrid]). *)
From Coq Require Import Ascii String List Bool Arith ZArith QArith Lia.
From PTBase Require Import Exn PyStr.
From P Require Import Lib Transfer Generators.
Import ListNotations.
Close Scope Q_scope.

Record t2d := mkD { dblocks : list (str * (str * Q));   (* grid.blocklist: name, (rock type name, volume) *)
                    drocks : list str;                  (* grid.rocktypelist names = keys of grid.rocktype *)
                    dprint : option str;                (* parameter['print_block'] *)
                    dgens : list gen;                   (* generatorlist *)
                    dincon : list (str * nat);          (* incon dict items in insertion order *)
                    dtag : nat }.                       (* everything copied verbatim *)

(** Python dict assignment: replace the value in place when the key exists, else append *)
Fixpoint aset {V} (d : list (str * V)) (k : str) (v : V) : list (str * V) :=
  match d with
  | [] => [(k, v)]
  | (k', v') :: r => if str_eqb k k' then (k, v) :: r else (k', v') :: aset r k v
  end.
Definition dict_of {V} (ps : list (str * V)) : list (str * V) :=
  fold_left (fun acc kv => aset acc (fst kv) (snd kv)) ps [].

(** blocks of the target grid whose mapped source block is [sb], in grid order *)
Definition mapped_to (mapping : dict) (dgrid : list (str * Q)) (sb : str) : res (list (str * Q)) :=
  filterM (fun bv => do b <- dget (fst bv) mapping; Ok (str_eqb b sb)) dgrid.

(** parameter['print_block']: the first target block mapped to the source's print block *)
Definition transfer_print (src : t2d) (dgrid : list (str * Q)) (mapping : dict) : res (option str) :=
  match dprint src with
  | None => Ok None
  | Some pb => do mb <- mapped_to mapping dgrid pb;
               Ok (match mb with bv :: _ => Some (fst bv) | [] => None end)
  end.

(** transfer_rocktypes_from: rocktypelist / rocktype dict deep-copied, then for every block of the grid
    [blk.rocktype = self.grid.rocktype[source.grid.block[mapping[blk.name]].rocktype.name]] *)
Definition transfer_rocktypes (src : t2d) (dgrid : list (str * Q)) (mapping : dict) : res (list (str * (str * Q))) :=
  mapM (fun bv => do sb <- dget (fst bv) mapping;
                  do sblk <- dget sb (dblocks src);
                  if memb (fst sblk) (drocks src) then Ok (fst bv, (fst sblk, snd bv)) else Raise KeyError) dgrid.

(** the in-file initial conditions: for every item of source.incon, every target block mapped to its block *)
Definition transfer_incon_dict (src : t2d) (dgrid : list (str * Q)) (mapping : dict) : res (list (str * nat)) :=
  do per <- mapM (fun kv => do mb <- mapped_to mapping dgrid (fst kv);
                            Ok (map (fun bv => (fst bv, snd kv)) mb)) (dincon src);
  Ok (dict_of (concat per)).

Definition svols_of (src : t2d) : list (str * Q) := map (fun b => (fst b, snd (snd b))) (dblocks src).

Section DT.
Variable nearest : pt -> list pt -> nat.

(** [sincfile]: the optional pair of initial-conditions files (read from / written to disk around this) *)
Definition data_transfer (src : t2d) (sourcegeo geo : geom) (dgrid : list (str * Q)) (incols tops bots : list str)
           (rename preserve : bool) (sincfile : option incon) : res (t2d * option incon) :=
  do mc <- block_mapping nearest sourcegeo geo;
  let m := fst mc in let cm := snd mc in
  do pb <- transfer_print src dgrid m;
  do rb <- transfer_rocktypes src dgrid m;
  do gs <- transfer_generators sourcegeo geo tops bots incols (svols_of src) dgrid m cm rename preserve (dgens src);
  do ic <- transfer_incon_dict src dgrid m;
  do f <- match sincfile with
          | None => Ok None
          | Some si => do i <- incon_transfer nearest (Some (m, cm)) si sourcegeo geo; Ok (Some i)
          end;
  Ok (mkD rb (drocks src) pb gs ic (dtag src), f).
End DT.
