(** C19 -- witnesses for the second group of theorems: a whole-model transfer onto a NON-identical
    geometry (rock types, print block, generators split with totals preserved, in-file initial
    conditions), an exact tie resolved both ways, the convention-3 IndexError. *)
From Coq Require Import Ascii String List Bool Arith ZArith QArith Lia.
From PTBase Require Import Exn PyStr.
From P Require Import Lib Transfer Generators Wf MapProofs MapThms InconProofs GenProofs GenSpec DataTransfer DataProofs TieThms Witness.
Import ListNotations.
Close Scope Q_scope.

(** target: three columns; "  d" and "  e" are nearest to source column "  a", "  f" to "  b" *)
Definition Cd := mkC (s2l "  d") (1, 0)%Z 0 2 (40 # 1)%Q.
Definition Ce := mkC (s2l "  e") (2, 1)%Z 0 2 (60 # 1)%Q.
Definition Cf := mkC (s2l "  f") (11, 0)%Z 0 2 (30 # 1)%Q.
Definition fine (conv : nat) := mkG conv Atm0 [L0; L1; L2] [Cd; Ce; Cf].
Lemma wf_fine0 : wf (fine 0). Proof. vm_compute; reflexivity. Qed.
Lemma wf_fine3 : wf (fine 3). Proof. vm_compute; reflexivity. Qed.

Definition nm (s : string) := s2l s.
Definition srcdat : t2d :=
  mkD [(nm "ATM 0", (nm "atmos", (1000000 # 1)%Q)); (nm "  a 1", (nm "rockA", (1000 # 1)%Q)); (nm "  b 1", (nm "rockB", (1000 # 1)%Q));
       (nm "  a 2", (nm "rockA", (1000 # 1)%Q)); (nm "  b 2", (nm "rockC", (1000 # 1)%Q))]
      [nm "atmos"; nm "rockA"; nm "rockB"; nm "rockC"]
      (Some (nm "  a 2"))
      [mkGen (nm "  atp") (nm "  a 1") (nm "MASS") (Some (6 # 1)%Q) 0 [] 1;
       mkGen (nm "wel 1") (nm "  a 2") (nm "HEAT") (Some (8 # 1)%Q) 2 [8 # 1; 4 # 1]%Q 2;
       mkGen (nm "wel 2") (nm "  b 2") (nm "DELV") (Some (5 # 1)%Q) 0 [] 3]
      [(nm "  a 2", 7); (nm "  b 1", 9)]
      42.
Definition finegrid : list (str * Q) :=
  [(nm "ATM 0", (1000000 # 1)%Q); (nm "  d 1", (400 # 1)%Q); (nm "  e 1", (600 # 1)%Q); (nm "  f 1", (300 # 1)%Q);
   (nm "  d 2", (400 # 1)%Q); (nm "  e 2", (600 # 1)%Q); (nm "  f 2", (300 # 1)%Q)].

Definition transferred :=
  data_transfer nearest_exec srcdat (src_of Atm0) (fine 0) finegrid [nm "  d"; nm "  e"; nm "  f"] [nm "tp"] [nm "bt"]
                false true None.

Definition rock_of (d : t2d) (b : string) : res str := do x <- dget (nm b) (dblocks d); Ok (fst x).

Example data_transfer_example :
  exists d, transferred = Ok (d, None) /\
    (* rock types follow the block mapping; the rock type list is the source's *)
    rock_of d "  d 1"%string = Ok (nm "rockA") /\ rock_of d "  e 2"%string = Ok (nm "rockA") /\ rock_of d "  f 1"%string = Ok (nm "rockB") /\
    rock_of d "  f 2"%string = Ok (nm "rockC") /\ rock_of d "ATM 0"%string = Ok (nm "atmos") /\ drocks d = drocks srcdat /\
    (* print block: first target block mapped to "  a 2" *)
    dprint d = Some (nm "  d 2") /\
    (* generators: the top generator of column a is split over columns d, e by area, the well in "  a 2" over
       blocks "  d 2", "  e 2" by volume, the DELV well is copied unscaled; totals of the table types preserved *)
    map gblock (dgens d) = map nm ["  d 1"; "  e 1"; "  d 2"; "  e 2"; "  f 2"]%string /\
    map gname (dgens d) = map nm ["  dtp"; "  etp"; "wel 1"; "wel 1"; "wel 2"]%string /\
    Qeq_bool (total_gx (dgens d)) (total_gx (dgens srcdat)) = true /\
    (* in-file initial conditions follow the block mapping *)
    dincon d = [(nm "  d 2", 7); (nm "  e 2", 7); (nm "  f 1", 9)] /\ dtag d = 42.
Proof. eexists. split; [vm_compute; reflexivity|]. vm_compute. repeat split. Qed.

(** the hypotheses of the conservation law are met in that example (table type, total area not zero) *)
Example conservation_hyps_sat :
  exists outs, transfer_col_gen (src_of Atm0) (fine 0) [nm "tp"] [nm "bt"] [nm "  d"; nm "  e"; nm "  f"]
                 [(nm "  f", nm "  b"); (nm "  e", nm "  a"); (nm "  d", nm "  a")] true
                 (mkGen (nm "  atp") (nm "  a 1") (nm "MASS") (Some (6 # 1)%Q) 0 [] 1) (nm "tp") (nm "  a") = Ok outs /\
    length outs = 2 /\ memb (nm "MASS") tablegens = true /\
    ~ (qsum (map carea (filter (col_follows [nm "  d"; nm "  e"; nm "  f"]
                                            [(nm "  f", nm "  b"); (nm "  e", nm "  a"); (nm "  d", nm "  a")] (nm "  a"))
                               (gcols (fine 0)))) == 0)%Q.
Proof. eexists. split; [vm_compute; reflexivity|]. split; [reflexivity|]. split; [vm_compute; reflexivity|]. vm_compute. discriminate. Qed.

(** the same top generator onto the same grid under naming convention 3: IndexError *)
Example convention3_example :
  data_transfer nearest_exec srcdat (src_of Atm0) (fine 3) finegrid [nm "  d"; nm "  e"; nm "  f"] [nm "tp"] [nm "bt"]
                false true None = Raise IndexError.
Proof. vm_compute. reflexivity. Qed.

(** ** an exact tie: target column midway between the two source columns *)
Definition Cm := mkC (s2l "  m") (5, 0)%Z 0 2 (50 # 1)%Q.
Definition mid := mkG 0 Atm2 [L0; L1; L2] [Cm].
Example tie_example :
  is_argmin (src_of Atm2) Cm Ca /\ is_argmin (src_of Atm2) Cm Cb /\ Ca <> Cb /\
  ~ (exists sc, unique_argmin (src_of Atm2) Cm sc).
Proof.
  assert (A : is_argmin (src_of Atm2) Cm Ca).
  { split; [left; reflexivity|]. intros c' [E|[E|[]]]; subst c'; vm_compute; discriminate. }
  assert (B : is_argmin (src_of Atm2) Cm Cb).
  { split; [right; left; reflexivity|]. intros c' [E|[E|[]]]; subst c'; vm_compute; discriminate. }
  split; [exact A|]. split; [exact B|]. split; [discriminate|].
  intros [sc [I U]]. destruct I as [E|[E|[]]]; subst sc.
  - specialize (U Cb (or_intror (or_introl eq_refl))). assert (N : Cb <> Ca) by discriminate. specialize (U N). vm_compute in U. discriminate.
  - specialize (U Ca (or_introl eq_refl)). assert (N : Ca <> Cb) by discriminate. specialize (U N). vm_compute in U. discriminate.
Qed.
