(** C19 -- hand model (H) of the transfer machinery of PyTOUGH:
      mulgrids.py  mulgrid.column_mapping / layer_mapping / block_mapping,
                   block_name / column_name / layer_name / fix_blockname,
                   setup_block_name_index (layer_column order), column_surface_layer
      t2incons.py  t2incon.transfer_from (nine atmosphere cases, per-block copy)
    (the generator bookkeeping of t2data.transfer_generators_from is in Generators.v).

    Geometry is abstract: layers (name, centre, bottom), columns (name, centre, surface,
    cached num_layers, area), naming convention, atmosphere type.  Coordinates are exact
    integers (the harness scales the doubles of a pair of geometries by a common power of
    two); distances are compared exactly (squared Euclidean distance for columns,
    absolute difference for layers).  The nearest-neighbour search for columns (scipy
    cKDTree or the numpy fallback) is the section variable [nearest]; the only thing the
    theorems assume about it is [nearest_spec]: it returns an index of an element at
    minimal distance (ties arbitrary).

    Direction: [block_mapping self geo] is Python's [self.block_mapping(geo, True)]:
    [self] is the SOURCE geometry, [geo] the TARGET; the dict maps each block name of
    the target to a block name of the source. *)
From Coq Require Import Ascii String List Bool Arith ZArith QArith Lia.
From PTBase Require Import Exn PyStr.
From P Require Import Lib.
Import ListNotations.
Close Scope Q_scope.

Definition pt := (Z * Z)%type.
Definition dist2 (p q : pt) : Z :=
  ((fst p - fst q) * (fst p - fst q) + (snd p - snd q) * (snd p - snd q))%Z.

Record layer := mkL { lname : str; lcentre : Z; lbottom : Z }.
Record column := mkC { cname : str; ccentre : pt; csurface : Z; cnl : nat; carea : Q }.
(** atmosphere_type 0: one atmosphere block; 1: one per column; else: none *)
Inductive atmt := Atm0 | Atm1 | Atm2.
Record geom := mkG { gconv : nat; gatm : atmt; glayers : list layer; gcols : list column }.

(** ** naming (set_secondary_variables, block_name, column_name, layer_name, fix_blockname) *)
Definition atm_col_names : list str := map s2l ["ATM"; " 0"; "  0"; "ATM"]%string.
Definition atmcol (g : geom) : str := nth (gconv g) atm_col_names [].

Definition fix_blockname (n : str) : str :=
  match nth_error n 2, nth_error n 3, nth_error n 4 with
  | Some c2, Some c3, Some c4 =>
      if is_digit c2 && is_digit c4 && ceqb c3 " "%char
      then slice 0 3 n ++ "0"%char :: slice 4 5 n else n
  | _, _, _ => n
  end.
Definition raw_name_c (conv : nat) (lay col : str) : str :=
  match conv with
  | 0 | 3 => slice 0 3 col ++ slice 0 2 lay
  | 1 => slice 0 3 lay ++ slice 0 2 col
  | _ => slice 0 2 lay ++ slice 0 3 col
  end.
Definition block_name_c (conv : nat) (lay col : str) : str := fix_blockname (raw_name_c conv lay col).
(** [fix_blockname] indexes name[2], then (if that is a digit) name[4]: IndexError on short names.
    Geometry names have the lengths of their convention (part of [wf] through [names_okb]), so the
    mapping model uses the total [block_name]; the generator model, where the "layer" part of a
    generator name is arbitrary user text, uses the checked [block_name_r]. *)
Definition fix_raises (n : str) : bool :=
  match nth_error n 2 with
  | None => true
  | Some c2 => if is_digit c2 then match nth_error n 4 with None => true | Some _ => false end else false
  end.
Definition block_name_r (conv : nat) (lay col : str) : res str :=
  let raw := raw_name_c conv lay col in
  if fix_raises raw then Raise IndexError else Ok (fix_blockname raw).
Definition column_name_c (conv : nat) (b : str) : str :=
  match conv with 0 => slice 0 3 b | 1 => slice 3 5 b | 2 => slice 2 5 b | 3 => slice 0 3 b | _ => [] end.
Definition layer_name_c (conv : nat) (b : str) : str :=
  match conv with 0 => slice 3 5 b | 1 => slice 0 3 b | 2 => slice 0 2 b | 3 => slice 3 5 b | _ => [] end.
Definition block_name (g : geom) := block_name_c (gconv g).
Definition column_name (g : geom) := column_name_c (gconv g).
Definition layer_name (g : geom) := layer_name_c (gconv g).

(** name of layerlist[0] (the atmosphere / surface layer) *)
Definition l0name (g : geom) : str := match glayers g with l :: _ => lname l | [] => [] end.

(** ** setup_block_name_index (block_order None / 'layer_column') *)
Definition has_block (lay : layer) (c : column) : bool := (lbottom lay <? csurface c)%Z.
Definition atm_blocks (g : geom) : list str :=
  match gatm g with
  | Atm0 => [block_name g (l0name g) (atmcol g)]
  | Atm1 => map (fun c => block_name g (l0name g) (cname c)) (gcols g)
  | Atm2 => []
  end.
Definition ug_blocks (g : geom) : list str :=
  flat_map (fun lay => map (fun c => block_name g (lname lay) (cname c)) (filter (has_block lay) (gcols g)))
           (tl (glayers g)).
Definition block_name_list (g : geom) : list str :=
  match glayers g with [] => [] | _ => atm_blocks g ++ ug_blocks g end.
Definition num_atm_blocks (g : geom) : nat :=
  match gatm g with Atm0 => 1 | Atm1 => length (gcols g) | Atm2 => 0 end.

(** self.column[name], self.layer[name] *)
Fixpoint col_lookup (cs : list column) (n : str) : res column :=
  match cs with [] => Raise KeyError | c :: r => if str_eqb n (cname c) then Ok c else col_lookup r n end.
Fixpoint lay_lookup (ls : list layer) (n : str) : res layer :=
  match ls with [] => Raise KeyError | l :: r => if str_eqb n (lname l) then Ok l else lay_lookup r n end.

(** column_surface_layer: layerlist[num_layers - col.num_layers] (col.num_layers is the cached count) *)
Definition column_surface_layer (g : geom) (c : column) : res layer :=
  match nth_error (glayers g) (length (glayers g) - cnl c) with Some l => Ok l | None => Raise IndexError end.
(** set_column_num_layers: the count the cache is supposed to hold *)
Definition count_layers (g : geom) (c : column) : nat :=
  length (filter (fun l => has_block l c) (tl (glayers g))).

Definition dict := list (str * str).

Section Model.
Variable nearest : pt -> list pt -> nat.

(** the one assumption on the nearest-neighbour search *)
Definition nearest_spec : Prop :=
  forall p l, l <> [] ->
    nearest p l < length l /\ forall q, In q l -> (dist2 p (nth (nearest p l) l p) <= dist2 p q)%Z.

(** *** column_mapping *)
Definition closest_col (self : geom) (col : column) : res column :=
  match nth_error (gcols self) (nearest (ccentre col) (map ccentre (gcols self))) with
  | Some sc => Ok sc | None => Raise IndexError end.
Definition column_mapping (self geo : geom) : res dict :=
  let m0 := match gatm self, gatm geo with Atm0, Atm0 => [(atmcol geo, atmcol self)] | _, _ => [] end in
  do ps <- mapM (fun col => do sc <- closest_col self col; Ok (cname col, cname sc)) (gcols geo);
  Ok (rev ps ++ m0).

(** *** layer_mapping: first arg-min of |centre difference| over layerlist[1:] *)
Definition closest_lay (srest : list layer) (lay : layer) : res layer :=
  do i <- argmin_first (map (fun s => Z.abs (lcentre s - lcentre lay)) srest);
  match nth_error srest i with Some c => Ok c | None => Raise IndexError end.
Definition layer_mapping (self geo : geom) : res dict :=
  match glayers geo, glayers self with
  | g0 :: grest, s0 :: srest =>
      do ps <- mapM (fun lay => do c <- closest_lay srest lay; Ok (lname lay, lname c)) grest;
      Ok (rev ps ++ [(lname g0, lname s0)])
  | _, _ => Raise IndexError
  end.

(** *** block_mapping: one iteration of the loop over geo.block_name_list *)
Definition map_block (self geo : geom) (cm lm : dict) (dest : str) : res (str * str) :=
  let destcol := column_name geo dest in
  let destlayer := layer_name geo dest in
  if str_eqb destlayer (l0name geo) then
    do sourcecol <- match gatm self with
                    | Atm0 => Ok (atmcol self)
                    | _ => match gatm geo with
                           | Atm0 => match gcols self with c :: _ => Ok (cname c) | [] => Raise IndexError end
                           | _ => dget destcol cm
                           end
                    end;
    Ok (dest, block_name self (l0name self) sourcecol)
  else
    do sourcecol <- dget destcol cm;
    do sourcelayer <- dget destlayer lm;
    do c <- col_lookup (gcols self) sourcecol;
    do l <- lay_lookup (glayers self) sourcelayer;
    if (csurface c <=? lbottom l)%Z then
      do sl <- column_surface_layer self c;
      Ok (dest, block_name self (lname sl) sourcecol)
    else Ok (dest, block_name self sourcelayer sourcecol).

Definition block_mapping (self geo : geom) : res (dict * dict) :=
  do cm <- column_mapping self geo;
  do lm <- layer_mapping self geo;
  do ps <- mapM (map_block self geo cm lm) (block_name_list geo);
  Ok (ps, cm).

(** ** t2incon.transfer_from *)
Record binc := mkB { bvar : list Q; bpor : option Q; bseq : option (Z * Z) }.
Definition incon := list (str * binc).          (* _blocklist order; the key is inc.block *)

Definition inc_first (i : incon) : res binc :=
  match i with [] => Raise IndexError | (_, b) :: _ => Ok b end.
(** add_incon through __setitem__: replace in place when the name exists, else append *)
Fixpoint inc_set (i : incon) (k : str) (v : binc) : incon :=
  match i with
  | [] => [(k, v)]
  | (k', v') :: r => if str_eqb k k' then (k, v) :: r else (k', v') :: inc_set r k v
  end.
Definition inc_of_pairs (ps : list (str * binc)) : incon :=
  fold_left (fun acc kv => inc_set acc (fst kv) (snd kv)) ps [].

Definition default_atm : binc := mkB [101300 # 1; 20 # 1]%Q None None.

Fixpoint vadd (a b : list Q) : res (list Q) :=
  match a, b with
  | [], [] => Ok []
  | x :: a', y :: b' => do r <- vadd a' b'; Ok (Qred (x + y)%Q :: r)
  | _, _ => Raise ValueError
  end.
Fixpoint vsum (acc : list Q) (vs : list (list Q)) : res (list Q) :=
  match vs with [] => Ok acc | v :: r => do a <- vadd acc v; vsum a r end.
Definition qofnat (n : nat) : Q := inject_Z (Z.of_nat n).

(** atmosphere part: the pairs (target block, state) in the order they are assigned *)
Definition atm_pairs (sourceinc : incon) (sourcegeo geo : geom) (colmapping : dict)
  : res (list (str * binc)) :=
  match gatm geo with
  | Atm0 =>
      let atmblk := block_name geo (l0name geo) (atmcol geo) in
      match gatm sourcegeo with
      | Atm0 => do b <- inc_first sourceinc; Ok [(atmblk, b)]
      | Atm1 =>
          do b0 <- inc_first sourceinc;
          do vs <- mapM (fun col => do b <- dget (block_name sourcegeo (l0name sourcegeo) (cname col)) sourceinc;
                                    Ok (bvar b)) (gcols sourcegeo);
          do s <- vsum (map (fun _ => 0%Q) (bvar b0)) vs;
          Ok [(atmblk, mkB (map (fun x => (x / qofnat (length (gcols sourcegeo)))%Q) s) None None)]
      | Atm2 => Ok [(atmblk, default_atm)]
      end
  | Atm1 =>
      match gatm sourcegeo with
      | Atm0 => mapM (fun col => do b <- inc_first sourceinc;
                                 Ok (block_name geo (l0name geo) (cname col), b)) (gcols geo)
      | Atm1 => mapM (fun col => do mc <- dget (cname col) colmapping;
                                 do b <- dget (block_name sourcegeo (l0name sourcegeo) mc) sourceinc;
                                 Ok (block_name geo (l0name geo) (cname col), b)) (gcols geo)
      | Atm2 => Ok (map (fun col => (block_name geo (l0name geo) (cname col), default_atm)) (gcols geo))
      end
  | Atm2 => Ok []
  end.

Definition ug_pairs (sourceinc : incon) (geo : geom) (mapping : dict) : res (list (str * binc)) :=
  mapM (fun blk => do sb <- dget blk mapping; do b <- dget sb sourceinc; Ok (blk, b))
       (skipn (num_atm_blocks geo) (block_name_list geo)).

(** [maps = None]: the default [mapping = {}, colmapping = {}] arguments (then computed by
    sourcegeo.block_mapping(geo, True)).  The function returns only the new object: the
    source object is an input that is read, never written. *)
Definition incon_transfer (maps : option (dict * dict)) (sourceinc : incon) (sourcegeo geo : geom)
  : res incon :=
  do mc <- match maps with Some mc => Ok mc | None => block_mapping sourcegeo geo end;
  do a <- atm_pairs sourceinc sourcegeo geo (snd mc);
  do u <- ug_pairs sourceinc geo (fst mc);
  Ok (inc_of_pairs (a ++ u)).

(** the same as a transition on the pair (source object, self): [self.empty()] first, the
    source component is handed back untouched *)
Definition incon_transfer_st (maps : option (dict * dict)) (st : incon * incon) (sourcegeo geo : geom)
  : res (incon * incon) :=
  do new <- incon_transfer maps (fst st) sourcegeo geo; Ok (fst st, new).

End Model.

(** ** executable instance of [nearest]: first arg-min of the squared distance *)
Definition nearest_exec (p : pt) (l : list pt) : nat :=
  match l with [] => 0 | q :: r => fst (argmin_v (dist2 p q) (map (dist2 p) r)) end.

(** ** well-formedness (boolean, so that it can be evaluated on extracted real geometries) *)
Definition all_colnames (g : geom) : list str :=
  map cname (gcols g) ++ match gatm g with Atm0 => [atmcol g] | _ => [] end.
Definition names_okb (g : geom) : bool :=
  forallb (fun l => forallb (fun c => str_eqb (column_name g (block_name g l c)) c &&
                                      str_eqb (layer_name g (block_name g l c)) l) (all_colnames g))
          (map lname (glayers g)).
Fixpoint descb (l : list Z) : bool :=
  match l with a :: (b :: _) as r => (b <=? a)%Z && descb r | _ => true end.
Definition wfb (g : geom) : bool :=
  (gconv g <? 4)%nat && (2 <=? length (glayers g))%nat && (1 <=? length (gcols g))%nat &&
  nodupb (map lname (glayers g)) && nodupb (all_colnames g) && names_okb g &&
  descb (map lbottom (tl (glayers g))) &&
  forallb (fun c => (cnl c =? count_layers g c)%nat && (1 <=? cnl c)%nat) (gcols g).
Definition wf (g : geom) : Prop := wfb g = true.

(** duplicate-free lists of points (column centres) *)
Fixpoint nodupZ2 (l : list pt) : bool :=
  match l with [] => true
  | x :: r => negb (existsb (fun y => (fst x =? fst y)%Z && (snd x =? snd y)%Z) r) && nodupZ2 r end.
